// C01 — Search returns only live items with true scores, sorted, unique, <= k,
// non-empty on a non-empty index. Reference-map monitor over seeded histories.
package c01

import (
	"math/rand"
	"os"
	"bytes"
	"fmt"
	"testing"

	"github.com/marekgalovic/anndb/index"
	amath "github.com/marekgalovic/anndb/math"
	uuid "github.com/satori/go.uuid"
	"verif/harness/hx"
	"verif/harness/mon"
)

type op struct {
	Op    string         `json:"op"`
	N     int            `json:"n,omitempty"`
	Level int            `json:"level,omitempty"`
	Vec   []float32      `json:"vec,omitempty"`
	Meta  index.Metadata `json:"meta,omitempty"`
	K     uint           `json:"k,omitempty"`
	Res   string         `json:"res,omitempty"`
}

// one recorder for the package: both TestC01 (index level) and TestC01Dataset
// (dataset level) feed the same evidence
var shared *mon.Recorder

func TestMain(m *testing.M) {
	shared = mon.Open("C01")
	code := m.Run()
	shared.Close()
	os.Exit(code)
}

func TestC01(t *testing.T) {
	rec := shared
	n := rec.N(16000, 400000)
	for c := 0; c < n; c++ {
		if rec.Mine(c) {
			runHistory(rec, c, false)
		}
	}
	long := rec.N(16, 2000)
	for c := 0; c < long; c++ {
		if rec.Mine(c) {
			runHistory(rec, 1000000+c, true)
		}
	}
}

func runHistory(rec *mon.Recorder, c int, long bool) {
	rng := rec.Rand("c01", c)
	cfg := hx.GenCfg(rng)
	steps := 5 + rng.Intn(56)
	universe := 2 + rng.Intn(14)
	if long {
		cfg.M, cfg.Ef, cfg.EfC = 16, 20, 40
		steps = 2000
		universe = 40 + rng.Intn(300)
	}
	idx, sp := cfg.New()
	ref := hx.Ref{}
	var ops []op
	var lastRemoved amath.Vector
	removals, nonEmptyResults, searches := 0, 0, 0
	violated := false
	var entryGuess uuid.UUID // id most likely to be the entry point: highest level inserted
	entryLevel := -1

	fail := func(sym, detail string) {
		if violated {
			return
		}
		violated = true
		cls := hx.Classify(idx.VerifDump(), len(ref))
		mode := "simple"
		if cfg.Heuristic {
			mode = "heuristic"
		}
		rec.Violation(fmt.Sprintf("search:%s:%s:%s", sym, cls, mode), detail,
			map[string]interface{}{"case": c, "seed": rec.Seed(), "cfg": cfg.String(), "ops": ops})
	}
	defer func() {
		if r := recover(); r != nil {
			violated = false
			fail("panic", fmt.Sprint(r))
		}
	}()

	search := func() {
		var q amath.Vector
		switch rng.Intn(4) {
		case 0:
			if lastRemoved != nil {
				q = lastRemoved
				break
			}
			fallthrough
		case 1:
			for _, it := range ref { // equal to a stored vector
				q = it.Vec
				break
			}
			if q == nil {
				q = cfg.Vec(rng)
			}
		default:
			q = cfg.Vec(rng)
		}
		k := uint(1 + rng.Intn(len(ref)+3))
		res, err := hx.Search(idx, q, k)
		searches++
		ops = append(ops, op{Op: "search", Vec: q, K: k, Res: fmt.Sprintf("%d items err=%v", len(res), err)})
		if err != nil {
			fail("error", err.Error())
			return
		}
		if len(res) > 0 {
			nonEmptyResults++
		}
		if sym, detail := hx.CheckSearch(sp, ref, q, k, res); sym != "" {
			fail(sym, detail)
		}
	}

	for s := 0; s < steps && !violated; s++ {
		r := rng.Intn(100)
		switch {
		case r < 45: // insert (fresh id, re-insert after remove, duplicate)
			n := rng.Intn(universe)
			id := hx.Id(n)
			v, m := cfg.Vec(rng), hx.GenMeta(rng)
			lvl := 0
			if cfg.MaxLevel > 0 {
				lvl = rng.Intn(cfg.MaxLevel + 1)
				if rng.Intn(3) > 0 { // geometric-ish bias towards low levels
					lvl = rng.Intn(lvl + 1)
				}
			}
			err := idx.Insert(id, v, m, lvl)
			ops = append(ops, op{Op: "insert", N: n, Level: lvl, Vec: v, Meta: m, Res: fmt.Sprint(err)})
			_, exists := ref[id]
			if exists != (err == index.ItemAlreadyExistsError) || (!exists && err != nil) {
				fail("insert-outcome", fmt.Sprintf("insert id %d exists=%v err=%v", n, exists, err))
				break
			}
			if err == nil {
				ref[id] = &hx.Item{Vec: v, Meta: m}
				if lvl > entryLevel || len(ref) == 1 {
					entryGuess, entryLevel = id, lvl
				}
			}
		case r < 80: // remove, biased towards the entry point and towards emptying
			var id uuid.UUID
			n := rng.Intn(universe)
			id = hx.Id(n)
			if rng.Intn(3) == 0 {
				if d := idx.VerifDump(); d.HasEntrypoint {
					id = d.Entrypoint
					n = hx.IdNum(id)
				} else if _, ok := ref[entryGuess]; ok {
					id, n = entryGuess, hx.IdNum(entryGuess)
				}
			}
			it, exists := ref[id]
			err := idx.Remove(id)
			ops = append(ops, op{Op: "remove", N: n, Res: fmt.Sprint(err)})
			if exists != (err == nil) || (!exists && err != index.ItemNotFoundError) {
				fail("remove-outcome", fmt.Sprintf("remove id %d exists=%v err=%v", n, exists, err))
				break
			}
			if err == nil {
				lastRemoved = it.Vec
				delete(ref, id)
				removals++
				if len(ref) == 0 {
					entryLevel = -1
				}
			}
		case r < 88: // update = the state machine's remove + merge + re-insert at the old level
			n := rng.Intn(universe)
			id := hx.Id(n)
			old, exists := ref[id]
			if !exists {
				continue
			}
			_, _, lvl, _ := idx.VerifGetItem(id)
			v, m := cfg.Vec(rng), hx.GenMeta(rng)
			merged := index.Metadata{}
			for k, x := range old.Meta {
				merged[k] = x
			}
			for k, x := range m {
				merged[k] = x
			}
			if err := idx.Remove(id); err != nil {
				fail("remove-outcome", fmt.Sprintf("update/remove id %d: %v", n, err))
				break
			}
			err := idx.Insert(id, v, merged, lvl)
			ops = append(ops, op{Op: "update", N: n, Level: lvl, Vec: v, Meta: merged, Res: fmt.Sprint(err)})
			if err != nil {
				fail("insert-outcome", fmt.Sprintf("update/insert id %d: %v", n, err))
				break
			}
			ref[id] = &hx.Item{Vec: v, Meta: merged}
			removals++
		case r < 93: // snapshot save-and-load mid-history, continue on the loaded copy
			if len(ref) == 0 {
				rec.Count("snapshots_of_an_empty_index_loaded", 1)
			}
			var buf bytes.Buffer
			if err := idx.Save(&buf, false); err != nil {
				ops = append(ops, op{Op: "saveload", Res: "save: " + err.Error()})
				fail("save-error", err.Error())
				break
			}
			nidx, _ := cfg.New()
			target := "fresh"
			if len(ops)%2 == 1 {
				// what a replica that restores a snapshot is: an index that already holds other items
				target = "used"
				urng := rand.New(rand.NewSource(int64(c)*31 + int64(len(ops))))
				for j, m := 0, 1+urng.Intn(6); j < m; j++ {
					nidx.Insert(hx.Id(9000+j), cfg.Vec(urng), index.Metadata{"stale": "yes"}, urng.Intn(cfg.MaxLevel+1))
				}
				rec.Count("snapshots_loaded_into_a_used_index", 1)
			}
			_ = target
			if err := nidx.Load(bytes.NewReader(buf.Bytes()), false); err != nil {
				ops = append(ops, op{Op: "saveload", Res: "load: " + err.Error()})
				fail("load-error", err.Error())
				break
			}
			idx = nidx
			ops = append(ops, op{Op: "saveload", Res: "ok"})
		default:
			search()
			continue
		}
		if violated {
			break
		}
		for i, ns := 0, 1+rng.Intn(3); i < ns && !violated; i++ {
			search()
		}
	}
	// the history is over: searches by several goroutines at once, with nobody writing, are judged like any other
	if c%8 == 5 && !violated && len(ref) > 0 {
		var qs []amath.Vector
		for i := 0; i < 4; i++ {
			qs = append(qs, cfg.Vec(rng))
		}
		if sym, detail, done := hx.ConcurrentSearches(idx, sp, ref, qs, uint(len(ref)+2), 6, 16, false); sym != "" {
			fail(sym+":concurrent-searches", detail)
		} else {
			rec.Count("concurrent_searches_checked", int64(done))
		}
	}
	rec.Count("searches_checked", int64(searches))
	rec.Count("removals", int64(removals))
	rec.Case(mon.Digest(cfg.String(), ops), removals >= 1 && nonEmptyResults >= 1)
	if rec.WantSample() && len(ops) < 14 && removals > 0 {
		rec.Sample(map[string]interface{}{"case": c, "cfg": cfg.String(), "ops": ops})
	}
}
