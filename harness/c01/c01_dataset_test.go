package c01

import (
	"math/rand"
	"context"
	"fmt"
	amath "github.com/marekgalovic/anndb/math"
	"os"
	"testing"
	"time"

	"github.com/marekgalovic/anndb/index"
	"github.com/marekgalovic/anndb/index/space"
	pb "github.com/marekgalovic/anndb/protobuf"
	"github.com/marekgalovic/anndb/utils"
	uuid "github.com/satori/go.uuid"
	"verif/harness/hx"
	"verif/harness/mon"
	"verif/harness/sim"
)

// TestC01Dataset runs the same search oracle on Dataset.Search of a real
// in-process cluster after histories of inserts, updates and removals issued
// through the Dataset API on any node.
func TestC01Dataset(t *testing.T) {
	rec := shared
	n := rec.N(4, 32)
	for c := 0; c < n; c++ {
		if rec.Mine(c) {
			datasetCase(rec, c)
		}
	}
}

func datasetCase(rec *mon.Recorder, c int) {
	rng := rec.Rand("c01-dataset", c)
	nodes := 1 + rng.Intn(3)
	parts := 1 + rng.Intn(4)
	repl := 1 + rng.Intn(2)
	metric := 1 + rng.Intn(3)
	spaces := map[int]pb.Space{1: pb.Space_Euclidean, 2: pb.Space_Manhattan, 3: pb.Space_Cosine}
	desc := fmt.Sprintf("dataset case=%d nodes=%d partitions=%d replication=%d metric=%d", c, nodes, parts, repl, metric)
	rec.Current(desc)
	cl := sim.New(sim.Options{Nodes: nodes, Dir: os.Getenv("VERIF_SCRATCH") + fmt.Sprintf("/c01ds-%d", c), TickEvery: 10 * time.Millisecond, Seed: rec.Seed() + int64(c)})
	defer cl.Close()
	if err := cl.Start(); err != nil {
		rec.Inconclusive(desc + ": cluster start: " + err.Error())
		return
	}
	cfg := hx.Cfg{Dim: 4, Metric: metric}
	dsId, meta, err := cl.CreateDataset(rng.Intn(nodes), 4, uint32(parts), uint32(repl), spaces[metric])
	if err != nil {
		rec.Inconclusive(desc + ": create dataset: " + err.Error())
		return
	}
	var sp space.Space = cfg.Space()
	ref := hx.Ref{}
	ctx := context.Background()
	var ops []string
	pids := make([]uuid.UUID, parts)
	for i, p := range meta.Partitions {
		pids[i] = uuid.FromBytesOrNil(p.Id)
	}
	quiesce := func() bool {
		return cl.WaitFor(15*time.Second, func() bool {
			for _, n := range cl.Nodes {
				d := n.Dataset(dsId)
				for pi, pid := range pids {
					for _, nid := range d.VerifPartitionNodeIds(pid) {
						if nid != n.Id {
							continue
						}
						idx := n.PartitionIndex(dsId, pid)
						if idx == nil {
							return false
						}
						// the replica holds exactly the reference items routed to this partition
						want := 0
						for id, it := range ref {
							if int(utils.UuidMod(id, uint64(parts))) != pi {
								continue
							}
							want++
							v, md, _, ok := idx.VerifGetItem(id)
							if !ok || !hx.VecEqual(v, it.Vec) || !hx.MetaEqual(md, it.Meta) {
								return false
							}
						}
						if idx.Len() != want {
							return false
						}
					}
				}
			}
			return true
		}) == nil
	}
	searches := 0
	for round := 0; round < 6; round++ {
		if round == 3 && c%2 == 0 {
			// half-way, the membership-and-catalogue log is compacted everywhere and a node is restarted: it builds
			// the dataset (its metric, its partitions) from the catalogue snapshot and its partitions from their own
			// logs; what it answers afterwards is judged like everything else
			for _, n := range cl.Nodes {
				cl.TriggerSnapshot(n, uuid.Nil, 0)
			}
			time.Sleep(100 * time.Millisecond)
			victim := cl.Nodes[rng.Intn(nodes)]
			if err := cl.Restart(victim.Idx); err != nil {
				rec.Inconclusive(fmt.Sprintf("%s: restart of node %d: %v", desc, victim.Id, err))
				return
			}
			if cl.WaitFor(20*time.Second, func() bool { return victim.Dataset(dsId) != nil }) != nil {
				rec.Inconclusive(fmt.Sprintf("%s: node %d does not know the dataset after its restart", desc, victim.Id))
				return
			}
			// the others reach it again (their cached connections to it were broken by the restart)
			cl.WaitFor(15*time.Second, func() bool {
				for _, n := range cl.Nodes {
					sctx, cancel := context.WithTimeout(ctx, 2*time.Second)
					_, err := n.Dataset(dsId).Search(sctx, cfg.Vec(rand.New(rand.NewSource(1))), 1)
					cancel()
					if err != nil {
						return false
					}
				}
				return true
			})
			ops = append(ops, fmt.Sprintf("catalogue log compacted; node %d restarted", victim.Id))
			rec.Count("dataset_cases_with_a_restart_from_a_catalogue_snapshot", 1)
		}
		for s := 0; s < 12; s++ {
			id := hx.Id(c*1000 + rng.Intn(30))
			via := cl.Nodes[rng.Intn(nodes)].Dataset(dsId)
			cctx, cancel := context.WithTimeout(ctx, 8*time.Second)
			var err error
			switch r := rng.Intn(10); {
			case r < 4:
				v, m := cfg.Vec(rng), hx.GenMeta(rng)
				err = via.Insert(cctx, id, v, m)
				if err == nil {
					ref[id] = &hx.Item{Vec: v, Meta: m}
				}
				ops = append(ops, fmt.Sprintf("insert %d -> %v", hx.IdNum(id), err))
			case r < 6:
				v, m := cfg.Vec(rng), hx.GenMeta(rng)
				err = via.Update(cctx, id, v, m)
				if err == nil {
					merged := index.Metadata{}
					for k, x := range ref[id].Meta {
						merged[k] = x
					}
					for k, x := range m {
						merged[k] = x
					}
					ref[id] = &hx.Item{Vec: v, Meta: merged}
				}
				ops = append(ops, fmt.Sprintf("update %d -> %v", hx.IdNum(id), err))
			case r < 8:
				// the batch forms of the same writes (1-3 distinct ids)
				kind := rng.Intn(3)
				n := 1 + rng.Intn(3)
				seen := map[uuid.UUID]bool{}
				var items []*pb.BatchItem
				type planned struct {
					id uuid.UUID
					v  amath.Vector
					m  index.Metadata
				}
				var plan []planned
				for len(items) < n {
					bid := hx.Id(c*1000 + rng.Intn(30))
					if seen[bid] {
						continue
					}
					seen[bid] = true
					v, m := cfg.Vec(rng), hx.GenMeta(rng)
					items = append(items, &pb.BatchItem{Id: bid.Bytes(), Value: v, Metadata: m})
					plan = append(plan, planned{bid, v, m})
				}
				var errs map[uuid.UUID]error
				name := []string{"batch-insert", "batch-update", "batch-remove"}[kind]
				switch kind {
				case 0:
					errs, err = via.BatchInsert(cctx, items)
				case 1:
					errs, err = via.BatchUpdate(cctx, items)
				default:
					errs, err = via.BatchRemove(cctx, items)
				}
				if err == nil {
					for _, pl := range plan {
						if errs[pl.id] != nil {
							continue
						}
						switch kind {
						case 0:
							ref[pl.id] = &hx.Item{Vec: pl.v, Meta: pl.m}
						case 1:
							merged := index.Metadata{}
							for k, x := range ref[pl.id].Meta {
								merged[k] = x
							}
							for k, x := range pl.m {
								merged[k] = x
							}
							ref[pl.id] = &hx.Item{Vec: pl.v, Meta: merged}
						default:
							delete(ref, pl.id)
						}
					}
				}
				ops = append(ops, fmt.Sprintf("%s %d items -> %v %v", name, n, err, errs))
			default:
				err = via.Remove(cctx, id)
				if err == nil {
					delete(ref, id)
				}
				ops = append(ops, fmt.Sprintf("remove %d -> %v", hx.IdNum(id), err))
			}
			cancel()
			if err != nil && err.Error() != index.ItemAlreadyExistsError.Error() && err.Error() != index.ItemNotFoundError.Error() &&
				!contains(err.Error(), "already exists") && !contains(err.Error(), "not found") {
				rec.Inconclusive(fmt.Sprintf("%s: write failed: %v", desc, err))
				return
			}
		}
		if !quiesce() {
			// slow, or at rest in a state that is not what the acknowledged writes
			// add up to? In the second case the searches below say what is wrong.
			atRest := cl.WaitFor(5*time.Second, func() bool {
				for _, n := range cl.Nodes {
					for _, pid := range pids {
						if g := n.PartitionRaft(dsId, pid); g != nil {
							if st := g.VerifStatus(); st.Lead == 0 || st.Applied < st.Commit {
								return false
							}
						}
					}
				}
				return true
			}) == nil
			if !atRest {
				rec.Inconclusive(desc + ": replicas did not reach the reference state")
				return
			}
			rec.Count("rounds_judged_at_rest_without_reaching_the_reference", 1)
		}
		for s := 0; s < 25; s++ {
			q := cfg.Vec(rng)
			k := uint(1 + rng.Intn(len(ref)+3))
			res, err := cl.Nodes[rng.Intn(nodes)].Dataset(dsId).Search(ctx, q, k)
			searches++
			if err != nil {
				rec.Violation("dataset-search:error", desc+": "+err.Error(), map[string]interface{}{"desc": desc, "ops": ops})
				return
			}
			if sym, detail := hx.CheckSearch(sp, ref, q, k, res); sym != "" {
				rec.Violation("dataset-search:"+sym, desc+": "+detail, map[string]interface{}{"desc": desc, "seed": rec.Seed(), "ops": ops, "query": q, "k": k})
				return
			}
		}
	}
	rec.Count("dataset_searches_checked", int64(searches))
	rec.Case(mon.Digest(desc, ops), true)
}

func contains(s, sub string) bool {
	for i := 0; i+len(sub) <= len(s); i++ {
		if s[i:i+len(sub)] == sub {
			return true
		}
	}
	return false
}
