// Package cw is the client workload shared by the crash (C03) and consensus
// (C05) monitors: every id is driven by one sequential client, every value
// carries a unique version tag (first vector component and metadata "v"), so
// after any crash each id has exactly two admissible states: the acknowledged
// prefix, or the acknowledged prefix plus the one operation that was open.
package cw

import (
	"context"
	"fmt"
	"math/rand"
	"strconv"
	"sync"
	"sync/atomic"
	"time"

	"github.com/marekgalovic/anndb/index"
	amath "github.com/marekgalovic/anndb/math"
	pb "github.com/marekgalovic/anndb/protobuf"
	"github.com/marekgalovic/anndb/storage"
	uuid "github.com/satori/go.uuid"
	"verif/harness/hx"
)

// State of one id: Ver == 0 means absent.
type State struct {
	Ver  int
	Meta map[string]string
}

type Op struct {
	Kind string // insert | update | remove | batch-insert | batch-update | batch-remove
	Ver  int
	Meta map[string]string
}

type IdClient struct {
	N     int // id number (hx.Id(N))
	Acked State
	Open  *Op // operation whose outcome is unknown (call did not return before the crash flag, or returned an ambiguous error)
	Hist  []string
}

type Workload struct {
	Dim     int
	Clients []*IdClient
	mu      sync.Mutex
	verCtr  int64
	stop    int32
	Acks    int64
	Errors  int64
	// Force, when set, is the kind of every following operation ("remove" empties the collection)
	Force string
}

func New(ids, dim, base int) *Workload {
	w := &Workload{Dim: dim}
	for i := 0; i < ids; i++ {
		w.Clients = append(w.Clients, &IdClient{N: base + i})
	}
	return w
}

func (w *Workload) Stop()         { atomic.StoreInt32(&w.stop, 1) }
func (w *Workload) Stopped() bool { return atomic.LoadInt32(&w.stop) == 1 }

func (w *Workload) vec(ver int) []float32 {
	v := make([]float32, w.Dim)
	v[0] = float32(ver)
	for i := 1; i < w.Dim; i++ {
		v[i] = float32((ver*31+i)%7) - 3
	}
	return v
}

func applyOp(s State, op *Op) State {
	switch op.Kind {
	case "insert", "batch-insert":
		if s.Ver != 0 {
			return s
		}
		return State{Ver: op.Ver, Meta: cloneM(op.Meta)}
	case "update", "batch-update":
		if s.Ver == 0 {
			return s
		}
		m := cloneM(s.Meta)
		if m == nil {
			m = map[string]string{}
		}
		for k, v := range op.Meta {
			m[k] = v
		}
		return State{Ver: op.Ver, Meta: m}
	default:
		return State{}
	}
}

func cloneM(m map[string]string) map[string]string {
	if m == nil {
		return nil
	}
	o := map[string]string{}
	for k, v := range m {
		o[k] = v
	}
	return o
}

// Target abstracts "a dataset reachable through some live node".
type Target func() *storage.Dataset

// Writer is the write half of a dataset: storage.Dataset in the in-process rig,
// a gRPC client of a real server process in the process rig.
type Writer interface {
	Insert(ctx context.Context, id uuid.UUID, value amath.Vector, metadata index.Metadata) error
	Update(ctx context.Context, id uuid.UUID, value amath.Vector, metadata index.Metadata) error
	Remove(ctx context.Context, id uuid.UUID) error
	BatchInsert(ctx context.Context, items []*pb.BatchItem) (map[uuid.UUID]error, error)
	BatchUpdate(ctx context.Context, items []*pb.BatchItem) (map[uuid.UUID]error, error)
	BatchRemove(ctx context.Context, items []*pb.BatchItem) (map[uuid.UUID]error, error)
}

// Step issues the next operation of client c through the dataset returned by
// target. crashed() is consulted under the workload mutex together with the
// result, so that "acknowledged" means: returned success before the crash flag
// was set.
func (w *Workload) Step(rng *rand.Rand, c *IdClient, target Target, timeout time.Duration, crashed func() bool) {
	if c.Open != nil {
		return // a client with an open operation is retired (its outcome stays unknown)
	}
	d := target()
	if d == nil {
		return
	}
	w.StepW(rng, c, d, timeout, crashed)
}

// StepW is Step against any Writer.
func (w *Workload) StepW(rng *rand.Rand, c *IdClient, d Writer, timeout time.Duration, crashed func() bool) {
	if c.Open != nil || d == nil {
		return
	}
	ver := int(atomic.AddInt64(&w.verCtr, 1))
	op := &Op{Ver: ver, Meta: map[string]string{"v": strconv.Itoa(ver)}}
	if rng.Intn(3) == 0 {
		op.Meta[fmt.Sprintf("k%d", rng.Intn(3))] = strconv.Itoa(ver)
	}
	kinds := []string{"insert", "update", "remove"}
	if c.Acked.Ver == 0 {
		kinds = []string{"insert", "insert", "insert", "remove", "update"}
	} else {
		kinds = []string{"update", "update", "remove", "insert"}
	}
	op.Kind = kinds[rng.Intn(len(kinds))]
	if w.Force != "" {
		op.Kind = w.Force
	}
	if rng.Intn(4) == 0 {
		op.Kind = "batch-" + op.Kind
	}
	id := hx.Id(c.N)
	ctx, cancel := context.WithTimeout(context.Background(), timeout)
	var err error
	func() {
		defer func() {
			if p := recover(); p != nil {
				err = fmt.Errorf("panic: %v", p)
			}
		}()
		switch op.Kind {
		case "insert":
			err = d.Insert(ctx, id, w.vec(ver), index.Metadata(op.Meta))
		case "update":
			err = d.Update(ctx, id, w.vec(ver), index.Metadata(op.Meta))
		case "remove":
			err = d.Remove(ctx, id)
		default:
			items := []*pb.BatchItem{{Id: id.Bytes(), Value: w.vec(ver), Metadata: op.Meta}}
			var errs map[uuid.UUID]error
			switch op.Kind {
			case "batch-insert":
				errs, err = d.BatchInsert(ctx, items)
			case "batch-update":
				errs, err = d.BatchUpdate(ctx, items)
			default:
				errs, err = d.BatchRemove(ctx, items)
			}
			if err == nil {
				if e, ok := errs[id]; ok {
					err = e
				}
			}
		}
	}()
	cancel()
	w.mu.Lock()
	defer w.mu.Unlock()
	dead := crashed != nil && crashed()
	msg := ""
	if err != nil {
		msg = err.Error()
	}
	definite := err == nil || contains(msg, "Item already exists") || contains(msg, "Item not found")
	switch {
	case dead || !definite:
		// outcome unknown: the operation may or may not take effect
		c.Open = op
		c.Hist = append(c.Hist, fmt.Sprintf("%s v%d -> OPEN (%s)", op.Kind, ver, msg))
		atomic.AddInt64(&w.Errors, 1)
	case err == nil:
		c.Acked = applyOp(c.Acked, op)
		c.Hist = append(c.Hist, fmt.Sprintf("%s v%d -> ok", op.Kind, ver))
		atomic.AddInt64(&w.Acks, 1)
	default:
		// a definite, truthful rejection must agree with the acknowledged state
		c.Hist = append(c.Hist, fmt.Sprintf("%s v%d -> %s", op.Kind, ver, msg))
	}
}

func contains(s, sub string) bool {
	for i := 0; i+len(sub) <= len(s); i++ {
		if s[i:i+len(sub)] == sub {
			return true
		}
	}
	return false
}

// Admissible returns the states an id may be in after recovery.
func (c *IdClient) Admissible() []State {
	out := []State{c.Acked}
	if c.Open != nil {
		out = append(out, applyOp(c.Acked, c.Open))
	}
	return out
}

func stateEq(s State, ver int, meta map[string]string) bool {
	if s.Ver != ver {
		return false
	}
	if s.Ver == 0 {
		return true
	}
	return hx.MetaEqual(index.Metadata(s.Meta), index.Metadata(meta))
}

// CheckIndex compares a recovered partition index (or several partitions'
// union, passed as a dump per partition) with the workload's admissible states.
// found maps id number -> (version, metadata) of what is stored.
func (w *Workload) Check(found map[int]State, foreign []string) (string, string) {
	if len(foreign) > 0 {
		return "never-submitted-item", fmt.Sprintf("stored items that were never submitted: %v", foreign)
	}
	for _, c := range w.Clients {
		f := found[c.N]
		ok := false
		for _, s := range c.Admissible() {
			if stateEq(s, f.Ver, f.Meta) {
				ok = true
			}
		}
		if !ok {
			sym := "acknowledged-write-lost"
			if f.Ver != 0 && c.Acked.Ver == 0 && c.Open == nil {
				sym = "removed-item-resurrected"
			} else if f.Ver != 0 && f.Ver != c.Acked.Ver {
				sym = "stale-or-unknown-version"
			}
			return sym, fmt.Sprintf("id %d: stored v%d %v; acknowledged v%d %v; open %v; history %v", c.N, f.Ver, f.Meta, c.Acked.Ver, c.Acked.Meta, c.Open, tail(c.Hist, 8))
		}
	}
	return "", ""
}

func tail(s []string, n int) []string {
	if len(s) > n {
		return s[len(s)-n:]
	}
	return s
}

// Collect reads id -> state from an index dump.
func Collect(d *index.VerifDump, known map[int]bool, found map[int]State, foreign *[]string) {
	for id, v := range d.Vertices {
		n := hx.IdNum(id)
		if hx.Id(n) != id || !known[n] {
			*foreign = append(*foreign, id.String())
			continue
		}
		ver := 0
		if len(v.Vector) > 0 {
			ver = int(v.Vector[0])
		}
		if mv, _ := strconv.Atoi(v.Metadata["v"]); mv != ver {
			// version tag in the vector and in the metadata must agree
			ver = -ver
		}
		found[n] = State{Ver: ver, Meta: map[string]string(v.Metadata)}
	}
}

func (w *Workload) Known() map[int]bool {
	m := map[int]bool{}
	for _, c := range w.Clients {
		m[c.N] = true
	}
	return m
}
