// C05 — the raft glue keeps consensus safety under message faults and replica
// restarts. Online trace monitors over SimNet + RecWAL + apply events.
package c05

import (
	"fmt"
	etcdRaft "github.com/coreos/etcd/raft"
	"hash/fnv"
	"os"
	"runtime"
	"strings"
	"sync"
	"sync/atomic"
	"testing"
	"time"

	"github.com/coreos/etcd/raft/raftpb"
	pb "github.com/marekgalovic/anndb/protobuf"
	"github.com/marekgalovic/anndb/storage"
	uuid "github.com/satori/go.uuid"
	"verif/harness/cw"
	"verif/harness/mon"
	"verif/harness/sim"
)

// one recorder for the package: TestC05 (fault schedules) and TestC05FatLog (replay of a log of many megabytes)
var shared *mon.Recorder

func TestMain(m *testing.M) {
	shared = mon.Open("C05")
	code := m.Run()
	shared.Close()
	os.Exit(code)
}

func TestC05(t *testing.T) {
	rec := shared
	if only := os.Getenv("VERIF_CASE"); only != "" {
		var c int
		fmt.Sscan(only, &c)
		scenario(rec, c)
		return
	}
	n := rec.N(64, 800)
	for c := 0; c < n; c++ {
		if rec.Mine(c) {
			scenario(rec, c)
		}
	}
}

type applyKey struct {
	g   uuid.UUID
	idx uint64
}

type monitors struct {
	mu          sync.Mutex
	rec         *mon.Recorder
	desc        string
	applied     map[applyKey]uint64 // M1
	who         map[applyKey]string
	next        map[string]uint64       // M2: node/group/incarnation -> next expected index (0 = unknown yet)
	leaders     map[string]uint64       // M5: group/term -> sender
	prevView    map[string]*sim.Durable // M4: node/group -> durable view at the end of the previous incarnation
	trace       []string
	failed      bool
	msgs        int64
	kindsGrp    func(g uuid.UUID) string
	cl          *sim.Cluster
	snapPending map[string]bool // M8: node/group/incarnation>peer
}

func (m *monitors) note(s string) {
	if len(m.trace) > 400 {
		m.trace = m.trace[200:]
	}
	m.trace = append(m.trace, s)
}

func (m *monitors) fail(sig, detail string) {
	if m.failed {
		return
	}
	m.failed = true
	tr := append([]string(nil), m.trace...)
	if len(tr) > 120 {
		tr = tr[len(tr)-120:]
	}
	replay := map[string]interface{}{"desc": m.desc, "seed": m.rec.Seed(), "detail": detail, "event_tail": tr}
	if m.cl != nil {
		replay["log_stores_wrapped_twice"] = append([]string(nil), m.cl.Rewraps...)
		if len(m.cl.Rewraps) > 0 {
			detail += fmt.Sprintf(" | log stores wrapped twice: %v", m.cl.Rewraps)
		}
	}
	if strings.HasPrefix(sig, "M7:") {
		replay["ready_loop_goroutines"] = readyLoopStacks()
	}
	m.rec.Violation(sig, m.desc+": "+detail, replay)
}

// readyLoopStacks returns the stacks of the goroutines that are inside a raft ready-loop or an apply callback
// (what a replica that does not move is doing).
func readyLoopStacks() []string {
	buf := make([]byte, 8<<20)
	buf = buf[:runtime.Stack(buf, true)]
	var out []string
	for _, g := range strings.Split(string(buf), "\n\n") {
		if strings.Contains(g, "raft.(*RaftGroup).run") || strings.Contains(g, "etcd/raft.(*node).run") {
			if len(g) > 3000 {
				g = g[:3000]
			}
			out = append(out, g)
		}
	}
	if len(out) > 60 {
		out = out[:60]
	}
	return out
}

func digest(e *raftpb.Entry) uint64 {
	h := fnv.New64a()
	fmt.Fprintf(h, "%d|", e.Type)
	h.Write(e.Data)
	return h.Sum64()
}

func scenario(rec *mon.Recorder, c int) {
	rng := rec.Rand("c05", c)
	sizes := []int{1, 3, 3, 5}
	nodes := sizes[c%len(sizes)]
	repl := nodes
	if nodes == 5 && c%8 >= 4 {
		repl = 3
	}
	parts := 1 + rng.Intn(2)
	desc := fmt.Sprintf("case=%d nodes=%d partitions=%d replication=%d", c, nodes, parts, repl)
	rec.Current(desc)
	cl := sim.New(sim.Options{Nodes: nodes, Dir: os.Getenv("VERIF_SCRATCH") + fmt.Sprintf("/c05-%d", c), TickEvery: 5 * time.Millisecond, Seed: rec.Seed()*1000 + int64(c), SimNet: true})
	defer cl.Close()
	m := &monitors{snapPending: map[string]bool{}, cl: cl, rec: rec, desc: desc, applied: map[applyKey]uint64{}, who: map[applyKey]string{}, next: map[string]uint64{}, leaders: map[string]uint64{}, prevView: map[string]*sim.Durable{}}
	gk := func(g uuid.UUID) string {
		if uuid.Equal(g, uuid.Nil) {
			return "zero"
		}
		return "partition"
	}
	noiseSeed := uint64(rng.Int63())
	var noiseCtr uint64
	late := c%8 == 6 && nodes == 3 // see the late-joiner family below
	var lateSnap int32             // 1 = armed
	var slowNode uint64            // id of a node whose ready-loop is held up at every Ready (0 = none)
	var slowLeader uint64          // id of a second such node (the leader, while a returning replica catches up)
	if c%2 == 1 {
		// a slow disk in every second scenario: one durable write in eight takes 1-15 ms
		var dctr uint64
		cl.SaveDelay = func(n *sim.Node, g uuid.UUID) time.Duration {
			h := (atomic.AddUint64(&dctr, 1)*0xbf58476d1ce4e5b9 ^ noiseSeed) >> 33
			if h%8 == 0 {
				return time.Duration(1+h%15) * time.Millisecond
			}
			return 0
		}
	}
	// ---- monitors -----------------------------------------------------------
	cl.OnEvent = func(n *sim.Node, g uuid.UUID, point string, args ...interface{}) {
		key := fmt.Sprintf("%d/%s/%d", n.Id, g, n.Incarnation)
		if point == "beforeSave" && n.Idx == 2 && !uuid.Equal(g, uuid.Nil) && atomic.CompareAndSwapInt32(&lateSnap, 1, 2) {
			// the late joiner is about to make its partition group's first durable write: its membership-and-
			// catalogue group, which has applied "node 3 added to the partition", takes a snapshot now, so that a
			// restart finds the node assigned to the partition from the start
			cl.TriggerSnapshot(n, uuid.Nil, 0)
			rec.Count("late_joiner_catalogue_snapshots_before_its_first_partition_write", 1)
		}
		if point == "beforeSave" && late && n.Idx == 2 && n.Incarnation >= 2 && !uuid.Equal(g, uuid.Nil) && len(args) > 0 {
			// The late joiner is back after a crash. If its partition group had made nothing durable before the
			// crash and now writes bootstrap entries of its own at index 1, it has started the group again as if
			// it were a founding member: its log forks from the group's at the first index where they differ.
			if rd, ok := args[0].(*etcdRaft.Ready); ok && len(rd.Entries) > 0 && rd.Entries[0].Index == 1 && rd.Entries[0].Type == raftpb.EntryConfChange {
				if w := cl.WAL(n, g); w != nil {
					if v := w.View(); v.Last == 0 && v.Term == 0 && v.SnapIndex == 0 {
						m.mu.Lock()
						m.fail("M4:replica-added-later-that-died-before-its-first-durable-write-bootstraps-the-group-again:"+gk(g), fmt.Sprintf("node %d was added to the partition group after it was founded, died before the group's first durable write on it, and on restart writes %d bootstrap membership entries of its own at index 1 (term %d) instead of waiting for the leader's log", n.Id, len(rd.Entries), rd.Entries[0].Term))
						m.mu.Unlock()
					}
				}
			}
		}
		// M8: every snapshot message of a Ready is followed, before the loop takes its next Ready, by a report of its
		// outcome to raft (sent or failed) - raft keeps the follower in the snapshot state until then, and nothing
		// else takes it out of it
		switch point {
		case "reportSnapshot":
			if len(args) > 0 {
				if to, ok := args[0].(uint64); ok {
					m.mu.Lock()
					delete(m.snapPending, fmt.Sprintf("%d/%s/%d>%d", n.Id, g, n.Incarnation, to))
					m.mu.Unlock()
					rec.Count("snapshot_outcomes_reported", 1)
				}
			}
		case "afterAdvance":
			m.mu.Lock()
			pre := fmt.Sprintf("%d/%s/%d>", n.Id, g, n.Incarnation)
			for k := range m.snapPending {
				if strings.HasPrefix(k, pre) {
					delete(m.snapPending, k)
					m.fail("M8:snapshot-message-neither-sent-nor-reported:"+gk(g), fmt.Sprintf("node %d group %s: its Ready held a snapshot for node %s; the loop went on to its next Ready without reporting the snapshot's outcome to raft, which keeps that follower in the snapshot state for good", n.Id, gk(g), k[len(pre):]))
					break
				}
			}
			m.mu.Unlock()
		}
		if point == "ready" && len(args) > 0 {
			if rd, ok := args[0].(*etcdRaft.Ready); ok {
				for _, msg := range rd.Messages {
					if msg.Type == raftpb.MsgSnap {
						m.mu.Lock()
						m.snapPending[fmt.Sprintf("%d/%s/%d>%d", n.Id, g, n.Incarnation, msg.To)] = true
						m.mu.Unlock()
					}
				}
				seen := map[uint64]bool{}
				for _, msg := range rd.Messages {
					if msg.Type == raftpb.MsgSnap && seen[msg.To] {
						rec.Count("readies_with_a_snapshot_behind_another_message_to_the_same_peer", 1)
					}
					seen[msg.To] = true
				}
			}
		}
		switch point {
		case "ready", "afterSave", "beforeSendFollower":
			// scheduling noise inside the ready-loop: a slow replica accumulates
			// several steps (a snapshot plus later appends, a vote plus a heartbeat…)
			// into one Ready
			h := (atomic.AddUint64(&noiseCtr, 1)*0x9e3779b97f4a7c15 ^ noiseSeed) >> 40
			if h%16 == 0 {
				time.Sleep(time.Duration(h%12) * time.Millisecond)
			}
			if point == "ready" && atomic.LoadUint64(&slowNode) == n.Id {
				time.Sleep(40 * time.Millisecond)
			}
			if point == "ready" && atomic.LoadUint64(&slowLeader) == n.Id {
				time.Sleep(25 * time.Millisecond)
			}
		case "run.start":
			m.mu.Lock()
			if w := cl.WAL(n, g); w != nil {
				v := w.View()
				m.next[key] = v.SnapIndex + 1
				// M4 restart monotonicity: nothing durable was lost or rolled back
				if pv := m.prevView[fmt.Sprintf("%d/%s", n.Id, g)]; pv != nil {
					if v.Term < pv.Term || v.Commit < pv.Commit || v.Last < pv.Commit || (v.Term == pv.Term && v.Vote != pv.Vote && pv.Vote != 0) {
						m.fail("M4:restart-lost-durable-state:"+gk(g), fmt.Sprintf("node %d group %s restarted with term=%d vote=%d commit=%d last=%d; durable before the crash: term=%d vote=%d commit=%d last=%d", n.Id, gk(g), v.Term, v.Vote, v.Commit, v.Last, pv.Term, pv.Vote, pv.Commit, pv.Last))
					}
				}
			}
			// M4 (exact): the log the replica resumes from is the log its previous
			// incarnation had made durable - same last index, same term at every
			// index both hold, same snapshot point and hard state
			if old, cur := cl.PrevWAL(n, g), cl.WAL(n, g); old != nil && cur != nil {
				pv, v := old.View(), cur.View()
				if len(pv.Terms) > 0 && pv.Last+pv.First > 0 {
					diff := ""
					switch {
					case v.Last != pv.Last:
						diff = fmt.Sprintf("last index %d, was %d", v.Last, pv.Last)
					case v.First != pv.First || v.SnapIndex != pv.SnapIndex:
						diff = fmt.Sprintf("first index %d / snapshot %d, were %d / %d", v.First, v.SnapIndex, pv.First, pv.SnapIndex)
					case v.Term != pv.Term || v.Vote != pv.Vote || v.Commit != pv.Commit:
						diff = fmt.Sprintf("hard state term=%d vote=%d commit=%d, was term=%d vote=%d commit=%d", v.Term, v.Vote, v.Commit, pv.Term, pv.Vote, pv.Commit)
					default:
						for i := pv.First; i <= pv.Last; i++ {
							if v.Terms[i] != pv.Terms[i] {
								diff = fmt.Sprintf("entry %d has term %d, was %d", i, v.Terms[i], pv.Terms[i])
								break
							}
						}
					}
					if diff != "" {
						m.fail("M4:restart-log-differs-from-durable-log:"+gk(g), fmt.Sprintf("node %d group %s resumes from a log that is not the one it had made durable: %s (durable before: first=%d last=%d; after reopen: first=%d last=%d)", n.Id, gk(g), diff, pv.First, pv.Last, v.First, v.Last))
					} else {
						m.rec.Count("restart_logs_compared_exactly", 1)
					}
				}
			}
			m.note(fmt.Sprintf("n%d %s run.start inc=%d", n.Id, gk(g), n.Incarnation))
			m.mu.Unlock()
		case "snapshotInstalled":
			idx := args[0].(uint64)
			m.mu.Lock()
			m.next[key] = idx + 1
			m.note(fmt.Sprintf("n%d %s snapshotInstalled %d", n.Id, gk(g), idx))
			m.mu.Unlock()
			rec.Count("snapshots_installed", 1)
		case "applied":
			e := args[0].(*raftpb.Entry)
			d := digest(e)
			m.mu.Lock()
			k := applyKey{g, e.Index}
			if old, ok := m.applied[k]; ok && old != d {
				m.fail("M1:different-entries-applied-at-one-index:"+gk(g), fmt.Sprintf("group %s index %d: node %d (incarnation %d) applied digest %x, %s had applied %x", gk(g), e.Index, n.Id, n.Incarnation, d, m.who[k], old))
			} else if !ok {
				m.applied[k] = d
				m.who[k] = fmt.Sprintf("node %d inc %d", n.Id, n.Incarnation)
			}
			if want := m.next[key]; want != 0 && e.Index != want {
				m.fail("M2:apply-out-of-order:"+gk(g), fmt.Sprintf("node %d group %s applied index %d, expected %d", n.Id, gk(g), e.Index, want))
			}
			m.next[key] = e.Index + 1
			m.mu.Unlock()
			rec.Count("entries_applied_"+gk(g), 1)
		}
	}
	cl.OnSend = func(from *sim.Node, to uint64, g uuid.UUID, mi *sim.MsgInfo, d *sim.Durable) {
		atomic.AddInt64(&m.msgs, 1)
		rec.Count("msgs_checked_"+mi.Type.String(), 1)
		if d == nil || mi.Term == 0 {
			return
		}
		m.mu.Lock()
		defer m.mu.Unlock()
		m.note(fmt.Sprintf("n%d->n%d %s %s term=%d idx=%d logterm=%d commit=%d rej=%v ents=%d | durable term=%d vote=%d last=%d", from.Id, to, gk(g), mi.Type, mi.Term, mi.Index, mi.LogTerm, mi.Commit, mi.Reject, len(mi.Entries), d.Term, d.Vote, d.Last))
		// M3 durable before send
		if mi.Term > d.Term {
			m.fail("M3:message-term-not-durable:"+mi.Type.String(), fmt.Sprintf("node %d sent %s at term %d while its durable term is %d", from.Id, mi.Type, mi.Term, d.Term))
		}
		switch mi.Type {
		case raftpb.MsgVoteResp:
			// a grant is safe once the node can never vote differently in that term:
			// the term with this vote is durable, or a later term is
			if !mi.Reject && !(d.Term > mi.Term || (d.Term == mi.Term && d.Vote == to)) {
				m.fail("M3:vote-granted-before-durable", fmt.Sprintf("node %d granted its vote to %d at term %d; durable term=%d vote=%d", from.Id, to, mi.Term, d.Term, d.Vote))
			}
		case raftpb.MsgVote:
			if !(d.Term > mi.Term || (d.Term == mi.Term && d.Vote == from.Id)) {
				m.fail("M3:candidacy-before-durable", fmt.Sprintf("node %d asked for votes at term %d; durable term=%d vote=%d", from.Id, mi.Term, d.Term, d.Vote))
			}
		case raftpb.MsgAppResp:
			if !mi.Reject {
				if mi.Index > d.Last {
					m.fail("M3:append-acknowledged-before-durable", fmt.Sprintf("node %d acknowledged index %d; its durable log ends at %d", from.Id, mi.Index, d.Last))
				}
			}
		case raftpb.MsgApp, raftpb.MsgHeartbeat, raftpb.MsgSnap:
			// M5 one leader per term
			k := fmt.Sprintf("%s/%d", g, mi.Term)
			if l, ok := m.leaders[k]; ok && l != from.Id {
				m.fail("M5:two-leaders-in-one-term:"+gk(g), fmt.Sprintf("group %s term %d: nodes %d and %d both sent leader messages", gk(g), mi.Term, l, from.Id))
			}
			m.leaders[k] = from.Id
		}
	}
	cl.OnSave = func(n *sim.Node, g uuid.UUID, w *sim.RecWAL, kind string) {
		rec.Count("durable_writes", 1)
		if len(w.Problems) > 0 {
			m.mu.Lock()
			m.fail("M4:durable-state-went-backwards:"+gk(g), fmt.Sprintf("node %d group %s: %s", n.Id, gk(g), w.Problems[0]))
			m.mu.Unlock()
		}
	}
	cl.OnCrash = func(n *sim.Node, cp *sim.CrashPoint) {
		rec.Seen("crash_points", cp.Hit)
	}
	if late {
		// a slow allocator loop (the late-joiner family only): between taking a watched partition and looking at it
		// the catalogue replay of a restarting node gets ahead
		cl.OnPoint = func(point string, args ...interface{}) {
			if point == "allocator.loop.update" {
				time.Sleep(3 * time.Millisecond)
			}
		}
	}
	// ---- scenario -----------------------------------------------------------
	// every eighth scenario: the third replica joins late (its groups start from an empty log) and crashes at one
	// of its partition groups' first durable writes
	if late {
		for i := 0; i < 2; i++ {
			if err := cl.StartNode(i); err != nil {
				rec.Inconclusive(fmt.Sprintf("%s: node %d: %v", desc, i+1, err))
				return
			}
			if i == 0 {
				cl.WaitFor(20*time.Second, func() bool { return cl.Nodes[0].ZeroLeader() != 0 })
			}
		}
		if cl.WaitMembership(2, 20*time.Second) != nil {
			rec.Inconclusive(desc + ": the first two nodes do not list each other")
			return
		}
	} else if err := cl.Start(); err != nil {
		rec.Inconclusive(desc + ": cluster start: " + err.Error())
		return
	}
	dsId, meta, err := cl.CreateDataset(0, 3, uint32(parts), uint32(repl), pb.Space_Euclidean)
	if err != nil {
		rec.Inconclusive(desc + ": create dataset: " + err.Error())
		return
	}
	var pids []uuid.UUID
	for _, p := range meta.Partitions {
		pids = append(pids, uuid.FromBytesOrNil(p.Id))
	}
	wl := cw.New(5, 3, 1)
	stopWriters := int32(0)
	var wg sync.WaitGroup
	target := func(g int) cw.Target {
		return func() *storage.Dataset {
			for off := 0; off < nodes; off++ {
				n := cl.Nodes[(g+off)%nodes]
				if n.Dead() || n.In == nil {
					continue
				}
				var d *storage.Dataset
				cl.Guard(2*time.Second, func() { d = n.Dataset(dsId) })
				return d
			}
			return nil
		}
	}
	for g, cli := range wl.Clients {
		wg.Add(1)
		go func(g int, cli *cw.IdClient) {
			defer wg.Done()
			r := rec.Rand(fmt.Sprintf("c05-client-%d", g), c)
			for atomic.LoadInt32(&stopWriters) == 0 {
				if cli.Open != nil {
					return
				}
				wl.Step(r, cli, target(g), 2*time.Second, nil)
				time.Sleep(time.Duration(r.Intn(8)) * time.Millisecond)
			}
		}(g, cli)
	}
	savePrev := func(i int) {
		n := cl.Nodes[i]
		m.mu.Lock()
		for _, g := range append([]uuid.UUID{uuid.Nil}, pids...) {
			if w := cl.WAL(n, g); w != nil {
				m.prevView[fmt.Sprintf("%d/%s", n.Id, g)] = w.View()
			}
		}
		m.mu.Unlock()
	}
	ids := func(idx []int) []uint64 {
		var o []uint64
		for _, i := range idx {
			o = append(o, cl.Nodes[i].Id)
		}
		return o
	}
	phases := 6 + rng.Intn(5)
	var script []string
	if late {
		phases = 0
		k, side := 1+(c/8)%4, []string{"after", "before"}[(c/32)%2]
		time.Sleep(300 * time.Millisecond) // some history before the third replica exists
		var crashedAt int32
		prevOnCrash := cl.OnCrash
		cl.OnCrash = func(n *sim.Node, cp *sim.CrashPoint) {
			atomic.StoreInt32(&crashedAt, 1)
			if prevOnCrash != nil {
				prevOnCrash(n, cp)
			}
		}
		if (c/8)%2 == 0 {
			atomic.StoreInt32(&lateSnap, 1)
		}
		cl.ArmCrashKind(2, "partition", k, side)
		step := fmt.Sprintf("node 3 joins late; crash armed %s its partition groups' durable write %d", side, k)
		script = append(script, step)
		m.mu.Lock()
		m.note("---- " + step)
		m.mu.Unlock()
		startErr := make(chan error, 1)
		go func() { startErr <- cl.StartNode(2) }()
		fired := cl.WaitFor(30*time.Second, func() bool { return atomic.LoadInt32(&crashedAt) == 1 }) == nil
		cl.Disarm()
		select {
		case <-startErr:
		case <-time.After(45 * time.Second):
		}
		if fired {
			rec.Count("late_joiner_crashes_at_its_first_writes", 1)
			time.Sleep(100 * time.Millisecond)
			savePrev(2)
			if err := cl.Restart(2); err != nil {
				if strings.Contains(err.Error(), "join handshake did not return") || strings.Contains(err.Error(), "Failed to join cluster") {
					rec.Inconclusive(desc + ": the late joiner's restart handshake did not return")
					m.failed = true
				} else {
					m.mu.Lock()
					m.fail("M6:restart-failed", fmt.Sprintf("node 3: %v", err))
					m.mu.Unlock()
				}
			} else {
				rec.Count("restarts", 1)
				script = append(script, "restart n3")
			}
			time.Sleep(400 * time.Millisecond)
		} else {
			rec.Count("late_joiner_crash_point_not_reached", 1)
		}
	}
	for ph := 0; ph < phases && !m.failed; ph++ {
		pol := sim.Policy{}
		switch rng.Intn(4) {
		case 1:
			pol.Drop = 0.1
		case 2:
			pol.Drop, pol.Dup = 0.3, 0.1
		case 3:
			pol.Dup = 0.2
		}
		if ph%3 == 2 {
			pol.Fail = 0.15 // sends that fail loudly (the sender is told), not only silent loss
		}
		switch rng.Intn(3) {
		case 1:
			pol.DelayMax = 20 * time.Millisecond
		case 2:
			pol.DelayMax = 80 * time.Millisecond
		}
		cl.Net.SetPolicy(pol)
		step := fmt.Sprintf("phase %d drop=%.1f dup=%.1f fail=%.2f delay<=%v", ph, pol.Drop, pol.Dup, pol.Fail, pol.DelayMax)
		if nodes > 1 {
			switch rng.Intn(5) {
			case 0: // isolate a minority
				k := 1 + rng.Intn((nodes-1)/2)
				perm := rng.Perm(nodes)
				cl.Net.Partition(ids(perm[:k]), ids(perm[k:]), false)
				step += fmt.Sprintf(" partition minority %v", ids(perm[:k]))
			case 1: // split without a majority on either side (even split of 5 -> 2|3 still has one; use asymmetric)
				perm := rng.Perm(nodes)
				cl.Net.Partition(ids(perm[:1]), ids(perm[1:]), true)
				step += fmt.Sprintf(" one-way partition from %v", ids(perm[:1]))
			}
			// crash-restart: immediate, or armed at a durable-write boundary
			var live []int
			for i, n := range cl.Nodes {
				if !n.Dead() {
					live = append(live, i)
				}
			}
			maxDown := (nodes - 1) / 2
			down := nodes - len(live)
			if down < maxDown && rng.Intn(2) == 0 {
				v := live[rng.Intn(len(live))]
				if rng.Intn(2) == 0 {
					k, side := 1+rng.Intn(12), []string{"before", "after"}[rng.Intn(2)]
					cl.ArmCrash(v, k, side)
					step += fmt.Sprintf(" arm crash n%d at write %d %s", v+1, k, side)
				} else {
					savePrev(v)
					cl.Crash(v)
					step += fmt.Sprintf(" crash n%d", v+1)
				}
			}
		} else if rng.Intn(3) == 0 {
			k, side := 1+rng.Intn(12), []string{"before", "after"}[rng.Intn(2)]
			cl.ArmCrash(0, k, side)
			step += fmt.Sprintf(" arm crash n1 at write %d %s", k, side)
		}
		script = append(script, step)
		m.mu.Lock()
		m.note("---- " + step)
		m.mu.Unlock()
		time.Sleep(time.Duration(150+rng.Intn(250)) * time.Millisecond)
		// local snapshot + compaction on some replicas: a follower that is down,
		// cut off or merely slow now needs the leader's snapshot to catch up
		for _, n := range cl.Nodes {
			if n.Dead() || rng.Intn(5) >= 2 {
				continue
			}
			for _, g := range append([]uuid.UUID{uuid.Nil}, pids...) {
				if rng.Intn(2) == 0 {
					go cl.TriggerSnapshot(n, g, 0)
					rec.Count("compactions_triggered", 1)
				}
			}
		}
		cl.Disarm()
		// partitions are healed before a node is restarted: its join handshake
		// needs a member that has a leader (a join stuck behind an isolated
		// member is an availability matter, not what this property is about)
		cl.Net.Heal()
		// restart whatever is down (durable views were captured by the wrapper at the crash)
		for i, n := range cl.Nodes {
			if i > 0 && cl.Nodes[0].Dead() {
				continue // the others re-join through node 1
			}
			if n.Dead() && rng.Intn(2) == 0 {
				savePrev(i)
				if err := cl.Restart(i); err != nil {
					if strings.Contains(err.Error(), "join handshake did not return") || strings.Contains(err.Error(), "Failed to join cluster") {
						rec.Inconclusive(desc + ": a restarted node's join handshake did not return (member it asked had no leader)")
						m.failed = true
					} else {
						m.mu.Lock()
						m.fail("M6:restart-failed", fmt.Sprintf("node %d: %v", n.Id, err))
						m.mu.Unlock()
					}
				} else {
					rec.Count("restarts", 1)
				}
				script = append(script, fmt.Sprintf("restart n%d", n.Id))
			}
		}
		cl.Net.Heal()
	}
	// ---- a follower that was cut off catches up through the leader's snapshot while its ready-loop is slow: the
	// snapshot, the appends behind it and the commit index that covers them pile up into one Ready
	for round := 0; round < 1 && nodes >= 3 && !m.failed; round++ {
		var live []int
		for i, n := range cl.Nodes {
			if !n.Dead() {
				live = append(live, i)
			}
		}
		if len(live) == nodes {
			f := live[rng.Intn(len(live))]
			var rest []int
			for _, i := range live {
				if i != f {
					rest = append(rest, i)
				}
			}
			cl.Net.SetPolicy(sim.Policy{})
			cl.Net.Partition(ids([]int{f}), ids(rest), false)
			time.Sleep(250 * time.Millisecond)
			for _, i := range rest {
				for _, g := range append([]uuid.UUID{uuid.Nil}, pids...) {
					cl.TriggerSnapshot(cl.Nodes[i], g, 0)
				}
			}
			time.Sleep(120 * time.Millisecond)
			atomic.StoreUint64(&slowNode, cl.Nodes[f].Id)
			cl.Net.Heal()
			if c%2 == 0 || nodes == 5 {
				// the link is back but still failing now and then, and the leader's loop is slow too: the
				// snapshot for the returning replica travels in batches whose earlier messages to it may fail
				cl.Net.SetPolicy(sim.Policy{Fail: 0.5})
				for _, i := range rest {
					if g := cl.Nodes[i].PartitionRaft(dsId, pids[0]); g != nil {
						if st := g.VerifStatus(); st.Lead == cl.Nodes[i].Id {
							atomic.StoreUint64(&slowLeader, cl.Nodes[i].Id)
						}
					}
				}
			}
			time.Sleep(700 * time.Millisecond)
			cl.Net.SetPolicy(sim.Policy{})
			atomic.StoreUint64(&slowLeader, 0)
			atomic.StoreUint64(&slowNode, 0)
			step := fmt.Sprintf("n%d cut off, the others compact, n%d returns with a slow ready-loop", f+1, f+1)
			script = append(script, step)
			m.mu.Lock()
			m.note("---- " + step)
			m.mu.Unlock()
			rec.Count("forced_catch_up_by_snapshot_phases", 1)
		}
	}
	// ---- faults stop: heal, restart, converge --------------------------------
	cl.Net.SetPolicy(sim.Policy{})
	cl.Disarm()
	for i, n := range cl.Nodes {
		if n.Dead() {
			savePrev(i)
			if err := cl.Restart(i); err != nil {
				if strings.Contains(err.Error(), "join handshake did not return") || strings.Contains(err.Error(), "Failed to join cluster") {
					rec.Inconclusive(desc + ": a restarted node's join handshake did not return")
					m.failed = true
				} else {
					m.mu.Lock()
					m.fail("M6:restart-failed", fmt.Sprintf("node %d: %v", n.Id, err))
					m.mu.Unlock()
				}
			} else {
				rec.Count("restarts", 1)
			}
		}
	}
	time.Sleep(300 * time.Millisecond) // let the writers make progress on the healed cluster
	atomic.StoreInt32(&stopWriters, 1)
	wg.Wait()
	if f := cl.Fatals(); len(f) > 0 {
		m.mu.Lock()
		m.fail("M6:fatal:"+f[0].Message, fmt.Sprintf("%+v", f[0]))
		m.mu.Unlock()
	}
	rec.Count("acknowledged_writes", atomic.LoadInt64(&wl.Acks))
	if !m.failed {
		// M7 bounded convergence: every live replica of every group applies the same last index
		startTicks := atomic.LoadInt64(&cl.TickCount)
		converged := func() bool {
			for _, pid := range pids {
				var a []uint64
				hosts := cl.Nodes[0].Dataset(dsId).VerifPartitionNodeIds(pid)
				for _, n := range cl.Nodes {
					isHost := false
					for _, h := range hosts {
						if h == n.Id {
							isHost = true
						}
					}
					if !isHost {
						continue
					}
					g := n.PartitionRaft(dsId, pid)
					if g == nil {
						return false
					}
					st := g.VerifStatus()
					if st.Lead == 0 || st.Applied != st.Commit {
						return false
					}
					a = append(a, st.Applied)
				}
				for _, x := range a {
					if x != a[0] {
						return false
					}
				}
			}
			return true
		}
		err := cl.WaitFor(30*time.Second, converged)
		ticks := atomic.LoadInt64(&cl.TickCount) - startTicks
		rec.Max("max_convergence_ticks", ticks)
		if err != nil {
			status := ""
			for _, pid := range pids {
				for _, n := range cl.Nodes {
					if g := n.PartitionRaft(dsId, pid); g != nil {
						st := g.VerifStatus()
						status += fmt.Sprintf(" n%d:%s(term=%d lead=%d commit=%d applied=%d)", n.Id, st.RaftState, st.Term, st.Lead, st.Commit, st.Applied)
					} else {
						status += fmt.Sprintf(" n%d:not-loaded", n.Id)
					}
				}
			}
			// second window: no progress at all => the replicas are stuck, not slow
			time.Sleep(3 * time.Second)
			if cl.WaitFor(10*time.Second, converged) != nil {
				m.mu.Lock()
				m.fail("M7:no-convergence-after-faults-stopped", fmt.Sprintf("%d virtual ticks (600 election timeouts) after the last fault the replicas still differ:%s | script %v", ticks, status, script))
				m.mu.Unlock()
			} else {
				rec.Inconclusive(desc + ": converged only in the second window (slow, not stuck)")
			}
		}
		// contents of every replica vs the acknowledged history
		if !m.failed {
			for _, n := range cl.Nodes {
				found := map[int]cw.State{}
				var foreign []string
				for _, pid := range pids {
					if idx := n.PartitionIndex(dsId, pid); idx != nil {
						cw.Collect(idx.VerifDump(), wl.Known(), found, &foreign)
					}
				}
				hostsAny := false
				for _, pid := range pids {
					if n.PartitionIndex(dsId, pid) != nil {
						hostsAny = true
					}
				}
				if !hostsAny || len(pids) > 1 && !hostsAll(n, dsId, pids) {
					continue
				}
				if sym, detail := wl.Check(found, foreign); sym != "" {
					m.mu.Lock()
					m.fail("contents:"+sym, fmt.Sprintf("node %d: %s | script %v", n.Id, detail, script))
					m.mu.Unlock()
					break
				}
				rec.Count("replica_contents_checked", 1)
			}
		}
	}
	rec.Count("raft_messages_checked", atomic.LoadInt64(&m.msgs))
	rec.Seen("group_sizes", fmt.Sprint(repl))
	rec.Case(mon.Digest(desc, script), atomic.LoadInt64(&m.msgs) > 200)
	if rec.WantSample() {
		rec.Sample(map[string]interface{}{"desc": desc, "script": script, "messages": atomic.LoadInt64(&m.msgs), "acks": atomic.LoadInt64(&wl.Acks)})
	}
}

func hostsAll(n *sim.Node, ds uuid.UUID, pids []uuid.UUID) bool {
	for _, pid := range pids {
		if n.PartitionIndex(ds, pid) == nil {
			return false
		}
	}
	return true
}
