// C05 on real processes, "once faults stop all live replicas converge": a replica of a three-replica partition group is
// killed, the others commit several megabytes of small entries (more than any message-size limit between real servers:
// the in-process network shim of the other C05 families has none), and the replica is started again. With a light write
// load going on, its applied index must keep moving until it has everything that was committed when it came back.
// Verdict by progress, not by a deadline: a replica whose applied index has not moved over ten state dumps three seconds
// apart while it is behind is stuck; one that is still moving when the watchdog ends the case is inconclusive.
package c05

import (
	"context"
	"fmt"
	"os"
	"path/filepath"
	"sync"
	"sync/atomic"
	"testing"
	"time"

	pb "github.com/marekgalovic/anndb/protobuf"
	uuid "github.com/satori/go.uuid"
	"verif/harness/hx"
	"verif/harness/mon"
	"verif/harness/proc"
)

func TestC05ProcBacklog(t *testing.T) {
	rec := shared
	if os.Getenv("VERIF_CASE") != "" {
		return
	}
	if proc.Bin() == "" {
		rec.Inconclusive("real-process part skipped: VERIF_ANNDB_BIN not set")
		return
	}
	n := rec.N(1, 4)
	for c := 0; c < n; c++ {
		if rec.Mine(c + 2) {
			procBacklog(rec, c)
		}
	}
}

func procBacklog(rec *mon.Recorder, c int) {
	rng := rec.Rand("c05-proc-backlog", c)
	dim := 330 + rng.Intn(60)
	backlog := 3300 + rng.Intn(500) // entries of about 1.4 KB: 4.6 MB and more, fewer than the 5000 that allow a snapshot
	desc := fmt.Sprintf("proc-backlog case=%d replicas=3 dim=%d entries-committed-while-a-replica-is-down=%d", c, dim, backlog)
	rec.Current(desc)
	dir := filepath.Join(os.Getenv("VERIF_SCRATCH"), fmt.Sprintf("c05proc-%d", c))
	defer os.RemoveAll(dir)
	var srv []*proc.Server
	defer func() {
		for _, s := range srv {
			s.Kill()
		}
	}()
	tail := func(s *proc.Server) string {
		b, _ := os.ReadFile(s.LogPath())
		if len(b) > 3000 {
			b = b[len(b)-3000:]
		}
		return string(b)
	}
	for i := 0; i < 3; i++ {
		join := ""
		if i > 0 {
			join = srv[0].Addr()
		}
		s := proc.New(uint64(i+1), filepath.Join(dir, fmt.Sprintf("n%d", i+1)), join)
		srv = append(srv, s)
		if err := s.Start(); err != nil {
			rec.Inconclusive(desc + ": start: " + err.Error())
			return
		}
		if err := s.WaitServing(60 * time.Second); err != nil {
			rec.Inconclusive(desc + ": fresh server not serving: " + err.Error())
			return
		}
	}
	var meta *pb.Dataset
	var err error
	for attempt := 0; attempt < 20 && meta == nil; attempt++ {
		if meta, err = srv[0].Create(uint32(dim), 1, 3, pb.Space_Euclidean, 8*time.Second); err != nil {
			meta = nil
			time.Sleep(300 * time.Millisecond)
		}
	}
	if meta == nil || len(meta.GetPartitions()) != 1 || len(meta.GetPartitions()[0].GetNodeIds()) != 3 {
		rec.Inconclusive(fmt.Sprintf("%s: create of a three-replica dataset: %v", desc, err))
		return
	}
	dsId := uuid.FromBytesOrNil(meta.GetId())
	pid := uuid.FromBytesOrNil(meta.GetPartitions()[0].GetId())
	cli := &proc.Client{S: srv[0], Ds: dsId}
	var idn int64
	insert := func(timeout time.Duration) bool {
		n := atomic.AddInt64(&idn, 1)
		v := make([]float32, dim)
		for j := range v {
			v[j] = float32((n*31+int64(j)*7)%1000) / 10
		}
		for attempt := 0; attempt < 5; attempt++ {
			ctx, cancel := context.WithTimeout(context.Background(), timeout)
			err := cli.Insert(ctx, hx.Id(int(n)), v, nil)
			cancel()
			if err == nil {
				return true
			}
			time.Sleep(200 * time.Millisecond)
		}
		return false
	}
	for i := 0; i < 20; i++ {
		if !insert(8 * time.Second) {
			rec.Inconclusive(desc + ": a write with all replicas up was not acknowledged")
			return
		}
	}
	victim := srv[1+rng.Intn(2)]
	victim.Kill()
	// the backlog, from 16 clients
	var wg sync.WaitGroup
	var failed int64
	per := backlog / 16
	for w := 0; w < 16; w++ {
		wg.Add(1)
		go func() {
			defer wg.Done()
			for i := 0; i < per; i++ {
				if !insert(10 * time.Second) {
					atomic.AddInt64(&failed, 1)
					return
				}
			}
		}()
	}
	wg.Wait()
	if failed > 0 {
		rec.Inconclusive(desc + ": writes with two of three replicas up were not acknowledged")
		return
	}
	status := func(s *proc.Server) (*proc.DumpRaft, uint64, bool) {
		d, err := s.Dump(20 * time.Second)
		if err != nil {
			return nil, 0, false
		}
		p := d.Datasets[dsId.String()][pid.String()]
		if p == nil || p.Raft == nil {
			return nil, 0, false
		}
		return p.Raft, p.Len, true
	}
	lead, leadLen, ok := status(srv[0])
	if !ok {
		rec.Inconclusive(desc + ": no state dump from node 1")
		return
	}
	target := lead.Commit
	if err := victim.Start(); err != nil {
		rec.Inconclusive(desc + ": restart: " + err.Error())
		return
	}
	if err := victim.WaitServing(60 * time.Second); err != nil {
		if !victim.Alive() {
			rec.Violation("proc:dies-on-restart:backlog", fmt.Sprintf("%s: the restarted replica exited: %s", desc, victim.ExitReason()), map[string]interface{}{"desc": desc, "seed": rec.Seed(), "log_tail": tail(victim)})
			return
		}
		rec.Inconclusive(desc + ": restarted server not serving: " + err.Error())
		return
	}
	// light write load while it catches up
	var stop int32
	var lw sync.WaitGroup
	lw.Add(1)
	go func() {
		defer lw.Done()
		for atomic.LoadInt32(&stop) == 0 {
			insert(5 * time.Second)
			time.Sleep(40 * time.Millisecond)
		}
	}()
	defer func() { atomic.StoreInt32(&stop, 1); lw.Wait() }()
	var trace []string
	lastApplied, still := uint64(0), 0
	for poll := 0; poll < 100; poll++ {
		time.Sleep(3 * time.Second)
		if !victim.Alive() {
			rec.Violation("proc:dies-after-restart:backlog", fmt.Sprintf("%s: the restarted replica exited: %s", desc, victim.ExitReason()), map[string]interface{}{"desc": desc, "seed": rec.Seed(), "log_tail": tail(victim)})
			return
		}
		st, l, ok := status(victim)
		if !ok {
			trace = append(trace, "no dump")
			continue
		}
		trace = append(trace, fmt.Sprintf("applied=%d commit=%d lead=%d len=%d", st.Applied, st.Commit, st.Lead, l))
		if st.Applied >= target {
			rec.Count("proc_backlog_replicas_caught_up", 1)
			rec.Count("proc_backlog_entries_behind_at_restart", int64(target))
			rec.Count("proc_backlog_items_on_the_leader_at_restart", int64(leadLen))
			rec.Case(mon.Digest(desc), true)
			return
		}
		if st.Applied == lastApplied {
			still++
		} else {
			still, lastApplied = 0, st.Applied
		}
		if still >= 10 {
			ls, _, _ := status(srv[0])
			rec.Violation("proc:replica-does-not-catch-up-after-restart:backlog", fmt.Sprintf("%s: node %d restarted %d entries behind (commit index %d); with writes going on its applied index has stayed at %d over ten state dumps three seconds apart (leader now: %+v)", desc, victim.Id, target-lastApplied, target, lastApplied, ls), map[string]interface{}{"desc": desc, "seed": rec.Seed(), "victim_status_every_3s": trace, "victim_log_tail": tail(victim), "leader_log_tail": tail(srv[0])})
			return
		}
	}
	rec.Inconclusive(fmt.Sprintf("%s: the restarted replica was still catching up when the watchdog ended the case (%v)", desc, trace[len(trace)-3:]))
}
