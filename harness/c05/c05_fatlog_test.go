// C05, a restart that replays many megabytes: the replica's log holds more committed entries behind its last snapshot
// than any buffer or message limit in the glue (batches of wide vectors, 64 KiB and more per entry, ten megabytes and
// more in all). It crashes and restarts on that log: every position from the snapshot to the commit index is handed to
// the state machine, in order, none skipped, and the same entry at each position as on every other replica; then it
// goes on with new entries behind them.
package c05

import (
	"context"
	"fmt"
	"os"
	"sync"
	"testing"
	"time"

	"github.com/coreos/etcd/raft/raftpb"
	pb "github.com/marekgalovic/anndb/protobuf"
	uuid "github.com/satori/go.uuid"
	"verif/harness/hx"
	"verif/harness/mon"
	"verif/harness/sim"
)

func TestC05FatLog(t *testing.T) {
	rec := shared
	if os.Getenv("VERIF_CASE") != "" {
		return
	}
	n := rec.N(2, 8)
	for c := 0; c < n; c++ {
		if rec.Mine(c) {
			fatLog(rec, c)
		}
	}
}

func fatLog(rec *mon.Recorder, c int) {
	rng := rec.Rand("c05-fat", c)
	nodes := []int{1, 3}[c%2]
	dim := 1024
	perBatch := 16 + rng.Intn(8)
	batches := 150 + rng.Intn(40) // >= 150 * 16 * 4 KiB = 9.4 MiB of entries
	snapAt := -1
	if c%4 >= 2 {
		snapAt = 10 + rng.Intn(20) // a snapshot early on: the replay starts behind it
	}
	desc := fmt.Sprintf("fat-log case=%d nodes=%d batches=%d items-per-batch=%d dim=%d snapshot-after-batch=%d", c, nodes, batches, perBatch, dim, snapAt)
	rec.Current(desc)
	cl := sim.New(sim.Options{Nodes: nodes, Dir: os.Getenv("VERIF_SCRATCH") + fmt.Sprintf("/c05fat-%d", c), TickEvery: 5 * time.Millisecond, Seed: rec.Seed()*1000 + int64(c), SimNet: true})
	defer cl.Close()
	var mu sync.Mutex
	applied := map[uint64]uint64{} // partition group: index -> digest (M1)
	who := map[uint64]string{}
	next := map[string]uint64{} // node/incarnation -> next index expected (M2)
	var notes []string
	violated := false
	fail := func(sig, detail string) {
		if violated {
			return
		}
		violated = true
		tail := notes
		if len(tail) > 40 {
			tail = tail[len(tail)-40:]
		}
		rec.Violation(sig, desc+": "+detail, map[string]interface{}{"desc": desc, "seed": rec.Seed(), "events": append([]string(nil), tail...)})
	}
	var bytesApplied int64
	cl.OnEvent = func(n *sim.Node, g uuid.UUID, point string, args ...interface{}) {
		if uuid.Equal(g, uuid.Nil) {
			return
		}
		key := fmt.Sprintf("%d/%d", n.Id, n.Incarnation)
		switch point {
		case "run.start":
			mu.Lock()
			// the replica resumes behind its snapshot: the first position it applies is the one after it
			if w := cl.WAL(n, g); w != nil {
				v := w.View()
				if v.Last > 0 || v.SnapIndex > 0 {
					next[key] = v.SnapIndex + 1
				}
				notes = append(notes, fmt.Sprintf("n%d inc=%d run.start snapshot=%d last=%d commit=%d", n.Id, n.Incarnation, v.SnapIndex, v.Last, v.Commit))
			}
			mu.Unlock()
		case "snapshotInstalled":
			mu.Lock()
			next[key] = args[0].(uint64) + 1
			mu.Unlock()
		case "applied":
			e := args[0].(*raftpb.Entry)
			d := digest(e)
			mu.Lock()
			if old, ok := applied[e.Index]; ok && old != d {
				fail("M1:different-entries-applied-at-one-index:partition", fmt.Sprintf("index %d: node %d (incarnation %d) applied digest %x, %s had applied %x", e.Index, n.Id, n.Incarnation, d, who[e.Index], old))
			} else if !ok {
				applied[e.Index] = d
				who[e.Index] = fmt.Sprintf("node %d inc %d", n.Id, n.Incarnation)
			}
			if want := next[key]; want != 0 && e.Index != want {
				fail("M2:apply-out-of-order:partition", fmt.Sprintf("node %d (incarnation %d) applied index %d, expected %d: positions %d..%d were never handed to the state machine", n.Id, n.Incarnation, e.Index, want, want, e.Index-1))
			}
			next[key] = e.Index + 1
			bytesApplied += int64(len(e.Data))
			mu.Unlock()
		}
	}
	if err := cl.Start(); err != nil {
		rec.Inconclusive(desc + ": cluster start: " + err.Error())
		return
	}
	dsId, meta, err := cl.CreateDataset(0, uint32(dim), 1, uint32(nodes), pb.Space_Euclidean)
	if err != nil {
		rec.Inconclusive(desc + ": create dataset: " + err.Error())
		return
	}
	pid := uuid.FromBytesOrNil(meta.Partitions[0].Id)
	ctx := context.Background()
	idn := 0
	written := 0
	batch := func() bool {
		items := make([]*pb.BatchItem, perBatch)
		for i := range items {
			v := make([]float32, dim)
			for j := range v {
				v[j] = float32(rng.Intn(1000))
			}
			items[i] = &pb.BatchItem{Id: hx.Id(idn).Bytes(), Value: v}
			idn++
		}
		for attempt := 0; attempt < 4; attempt++ {
			ds := cl.Nodes[0].Dataset(dsId)
			if ds == nil { // a node that has just restarted has not replayed its catalogue yet
				cl.WaitFor(10*time.Second, func() bool { return cl.Nodes[0].Dataset(dsId) != nil })
				continue
			}
			cctx, cancel := context.WithTimeout(ctx, 5*time.Second)
			_, err := ds.BatchInsert(cctx, items)
			cancel()
			if err == nil {
				written += perBatch
				return true
			}
		}
		return false
	}
	victim := cl.Nodes[nodes-1]
	for b := 0; b < batches && !violated; b++ {
		if !batch() {
			rec.Inconclusive(fmt.Sprintf("%s: batch %d was not acknowledged", desc, b))
			return
		}
		if b == snapAt {
			for _, n := range cl.Nodes {
				cl.TriggerSnapshot(n, pid, 0)
			}
		}
	}
	level := func() bool {
		var a []uint64
		for _, n := range cl.Nodes {
			g := n.PartitionRaft(dsId, pid)
			if g == nil {
				return false
			}
			st := g.VerifStatus()
			if st.Lead == 0 || st.Applied != st.Commit {
				return false
			}
			a = append(a, st.Applied)
		}
		for _, x := range a {
			if x != a[0] {
				return false
			}
		}
		return true
	}
	if cl.WaitFor(30*time.Second, level) != nil {
		rec.Inconclusive(desc + ": the replicas did not become level before the crash")
		return
	}
	var logBytes uint64
	if w := cl.WAL(victim, pid); w != nil {
		v := w.View()
		mu.Lock()
		notes = append(notes, fmt.Sprintf("n%d crashes with snapshot=%d last=%d commit=%d", victim.Id, v.SnapIndex, v.Last, v.Commit))
		mu.Unlock()
		if ents, err := w.Inner().Entries(v.SnapIndex+1, v.Last+1, ^uint64(0)); err == nil {
			for i := range ents {
				logBytes += uint64(ents[i].Size())
			}
		}
	}
	cl.Crash(victim.Idx)
	if err := cl.Restart(victim.Idx); err != nil {
		rec.Inconclusive(desc + ": restart: " + err.Error())
		return
	}
	if f := cl.Fatals(); len(f) > 0 {
		fail("fat-log:fatal", fmt.Sprintf("%+v", f[0]))
		return
	}
	// new entries behind the replayed ones
	for b := 0; b < 2 && !violated; b++ {
		if !batch() {
			rec.Inconclusive(desc + ": a batch after the restart was not acknowledged")
			return
		}
	}
	if cl.WaitFor(60*time.Second, level) != nil {
		if !violated {
			rec.Inconclusive(desc + ": the replicas did not become level after the restart")
		}
		return
	}
	if violated {
		return
	}
	// the restarted replica holds every item written
	if idx := victim.PartitionIndex(dsId, pid); idx == nil || idx.Len() != written {
		have := -1
		if idx != nil {
			have = idx.Len()
		}
		fail("fat-log:restarted-replica-lacks-applied-entries", fmt.Sprintf("node %d holds %d items after replaying its log and catching up, %d were written and acknowledged", victim.Id, have, written))
		return
	}
	rec.Count("fat_log_restarts", 1)
	rec.Count("fat_log_bytes_replayed_on_restart", int64(logBytes))
	if logBytes > 8<<20 {
		rec.Count("fat_log_restarts_replaying_over_8_MiB", 1)
	}
	rec.Case(mon.Digest(desc), true)
}
