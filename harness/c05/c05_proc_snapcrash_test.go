// C05 on real processes, a crash in the middle of a durable write: "after a restart it resumes from a term and log no
// older than what it had made durable". A replica that already holds durable state (a term, a snapshot, a log) falls
// behind, the others compact, and on its return it is killed while it stores the leader's snapshot - not before or
// after the write, but a seeded fraction of a few milliseconds into it, by a signal from another goroutine of its own
// process. It is then started alone (the others are stopped, so nothing can repair it) and asked what its log store
// holds. Durable state only grows: the term, the snapshot index and the last index it resumes from must not be below
// what it reported durable before it first went down (the last index not below the commit index it had stored).
package c05

import (
	"context"
	"fmt"
	"os"
	"path/filepath"
	"sync"
	"sync/atomic"
	"testing"
	"time"

	pb "github.com/marekgalovic/anndb/protobuf"
	uuid "github.com/satori/go.uuid"
	"verif/harness/hx"
	"verif/harness/mon"
	"verif/harness/proc"
)

func TestC05ProcSnapshotInstallCrash(t *testing.T) {
	rec := shared
	if os.Getenv("VERIF_CASE") != "" {
		return
	}
	if proc.Bin() == "" {
		rec.Inconclusive("real-process part skipped: VERIF_ANNDB_BIN not set")
		return
	}
	n := rec.N(6, 40)
	var wg sync.WaitGroup
	sem := make(chan struct{}, 2)
	for c := 0; c < n; c++ {
		if !rec.Mine(c + 1) {
			continue
		}
		wg.Add(1)
		sem <- struct{}{}
		go func(c int) {
			defer wg.Done()
			defer func() { <-sem }()
			procSnapshotInstallCrash(rec, c)
		}(c)
	}
	wg.Wait()
}

func procSnapshotInstallCrash(rec *mon.Recorder, c int) {
	rng := rec.Rand("c05-proc-snapcrash", c)
	dim := 900 + rng.Intn(200)
	window := []string{"4ms", "10ms", "25ms", "60ms"}[c%4]
	desc := fmt.Sprintf("proc-crash-inside-a-snapshot-install case=%d replicas=3 dim=%d kill-within=%s", c, dim, window)
	rec.Current(desc)
	dir := filepath.Join(os.Getenv("VERIF_SCRATCH"), fmt.Sprintf("c05snap-%d", c))
	defer os.RemoveAll(dir)
	var srv []*proc.Server
	defer func() {
		for _, s := range srv {
			s.Kill()
		}
	}()
	base := []string{"VERIF_SNAPSHOT_EVERY=40", "VERIF_DUMP_ITEMS=0"}
	for i := 0; i < 3; i++ {
		join := ""
		if i > 0 {
			join = srv[0].Addr()
		}
		s := proc.New(uint64(i+1), filepath.Join(dir, fmt.Sprintf("n%d", i+1)), join)
		s.Env = append([]string(nil), base...)
		srv = append(srv, s)
		if err := s.Start(); err != nil {
			rec.Inconclusive(desc + ": start: " + err.Error())
			return
		}
		if err := s.WaitServing(60 * time.Second); err != nil {
			rec.Inconclusive(desc + ": fresh server not serving: " + err.Error())
			return
		}
	}
	var meta *pb.Dataset
	var err error
	for attempt := 0; attempt < 20 && meta == nil; attempt++ {
		if meta, err = srv[0].Create(uint32(dim), 1, 3, pb.Space_Euclidean, 8*time.Second); err != nil {
			meta = nil
			time.Sleep(300 * time.Millisecond)
		}
	}
	if meta == nil || len(meta.GetPartitions()) != 1 || len(meta.GetPartitions()[0].GetNodeIds()) != 3 {
		rec.Inconclusive(fmt.Sprintf("%s: create of a three-replica dataset: %v", desc, err))
		return
	}
	dsId := uuid.FromBytesOrNil(meta.GetId())
	pid := uuid.FromBytesOrNil(meta.GetPartitions()[0].GetId())
	cli := &proc.Client{S: srv[0], Ds: dsId}
	var idn int64
	insert := func() bool {
		n := atomic.AddInt64(&idn, 1)
		v := make([]float32, dim)
		for j := range v {
			v[j] = float32((n*17+int64(j)*3)%1000) / 7
		}
		for attempt := 0; attempt < 5; attempt++ {
			ctx, cancel := context.WithTimeout(context.Background(), 10*time.Second)
			err := cli.Insert(ctx, hx.Id(int(n)), v, nil)
			cancel()
			if err == nil {
				return true
			}
			time.Sleep(200 * time.Millisecond)
		}
		return false
	}
	burst := func(total int) bool {
		var wg sync.WaitGroup
		var failed int64
		for w := 0; w < 8; w++ {
			wg.Add(1)
			go func() {
				defer wg.Done()
				for i := 0; i < total/8; i++ {
					if !insert() {
						atomic.AddInt64(&failed, 1)
						return
					}
				}
			}()
		}
		wg.Wait()
		return failed == 0
	}
	view := func(s *proc.Server) (*proc.DumpRaft, bool) {
		d, err := s.Dump(20 * time.Second)
		if err != nil {
			return nil, false
		}
		p := d.Datasets[dsId.String()][pid.String()]
		if p == nil || p.Raft == nil || p.Raft.DurableErr != "" {
			return nil, false
		}
		return p.Raft, true
	}
	if !burst(320) {
		rec.Inconclusive(desc + ": writes with all replicas up were not acknowledged")
		return
	}
	victim := srv[1+rng.Intn(2)]
	// the replica is level before it goes, and says what it holds durably
	var before *proc.DumpRaft
	deadline := time.Now().Add(30 * time.Second)
	for time.Now().Before(deadline) {
		l, ok1 := view(srv[0])
		v, ok2 := view(victim)
		if ok1 && ok2 && v.Applied >= l.Commit && v.SnapshotIndex > 0 {
			before = v
			break
		}
		time.Sleep(300 * time.Millisecond)
	}
	if before == nil {
		rec.Inconclusive(desc + ": the replica did not report a durable snapshot and a level log before it was stopped")
		return
	}
	victim.Kill()
	if !burst(240) { // the others go on and compact (a snapshot every 40 applied entries)
		rec.Inconclusive(desc + ": writes with two of three replicas up were not acknowledged")
		return
	}
	// back, and killed from inside a little way into the write that stores the leader's snapshot
	victim.Env = append(append([]string(nil), base...), "VERIF_KILL_AT=partition:beforeSaveSnapshot@1", "VERIF_KILL_ASYNC="+window)
	if err := victim.Start(); err != nil {
		rec.Inconclusive(desc + ": restart: " + err.Error())
		return
	}
	if !victim.WaitExit(40 * time.Second) {
		rec.Count("proc_snapshot_install_not_reached", 1)
		rec.Case(mon.Digest(desc, "no-install"), false)
		return
	}
	rec.Count("proc_kills_around_a_snapshot_install", 1)
	// alone: nothing can bring it up to date, what it reports is what it resumed from (plus its own elections)
	srv[0].Kill()
	for _, s := range srv[1:] {
		if s != victim {
			s.Kill()
		}
	}
	victim.Env = append([]string(nil), base...)
	victim.Join = "false"
	if err := victim.Start(); err != nil {
		rec.Inconclusive(desc + ": second restart: " + err.Error())
		return
	}
	replay := func(after *proc.DumpRaft) map[string]interface{} {
		b, _ := os.ReadFile(victim.LogPath())
		if len(b) > 4000 {
			b = b[len(b)-4000:]
		}
		return map[string]interface{}{"desc": desc, "seed": rec.Seed(), "durable_before_the_first_stop": before, "durable_after_the_restart": after, "log_tail": string(b)}
	}
	if err := victim.WaitServing(60 * time.Second); err != nil { // (a state dump is asked for by signal: not before the server is up)
		if !victim.Alive() {
			rec.Violation("proc:dies-on-restart:after-a-crash-inside-a-snapshot-install", fmt.Sprintf("%s: the replica exited when started on what the crash left: %s", desc, victim.ExitReason()), replay(nil))
			return
		}
		rec.Inconclusive(desc + ": the replica, started alone, does not answer: " + err.Error())
		return
	}
	var after *proc.DumpRaft
	deadline = time.Now().Add(60 * time.Second)
	for time.Now().Before(deadline) && after == nil {
		if !victim.Alive() {
			rec.Violation("proc:dies-on-restart:after-a-crash-inside-a-snapshot-install", fmt.Sprintf("%s: the replica exited when started on what the crash left: %s", desc, victim.ExitReason()), replay(nil))
			return
		}
		if v, ok := view(victim); ok {
			after = v
		} else {
			time.Sleep(300 * time.Millisecond)
		}
	}
	if after == nil {
		rec.Inconclusive(desc + ": the replica, started alone, did not report its partition group's durable view within a minute")
		return
	}
	bad := ""
	switch {
	case after.SnapshotIndex < before.SnapshotIndex:
		bad = fmt.Sprintf("its snapshot is at index %d, it had stored one at index %d", after.SnapshotIndex, before.SnapshotIndex)
	case after.LastIndex < before.DurableCommit:
		bad = fmt.Sprintf("its log ends at index %d, it had stored a commit index of %d", after.LastIndex, before.DurableCommit)
	case after.DurableTerm < before.DurableTerm:
		bad = fmt.Sprintf("its term is %d, it had stored term %d", after.DurableTerm, before.DurableTerm)
	}
	if bad != "" {
		rec.Violation("proc:resumes-from-older-than-durable:after-a-crash-inside-a-snapshot-install", fmt.Sprintf("%s: node %d, killed a moment into storing the leader's snapshot and started again on its own, resumes from less than it had made durable: %s", desc, victim.Id, bad), replay(after))
		return
	}
	rec.Count("proc_durable_views_compared_after_a_crash_inside_a_write", 1)
	rec.Case(mon.Digest(desc), true)
}
