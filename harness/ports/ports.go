// Package ports hands out TCP ports that no other monitor process on this
// machine is using or about to use: a port is reserved through an exclusively
// created lock file (holding the owner's pid) before it is probed, so that
// shards, isolated children and concurrently running checks never race for it.
package ports

import (
	"fmt"
	"net"
	"os"
	"path/filepath"
	"strconv"
	"strings"
	"sync"
	"syscall"
)

var (
	mu   sync.Mutex
	next = 20000 + (os.Getpid()*7919)%20000
	dir  = filepath.Join(os.TempDir(), ".verif-ports")
	mine []string
)

func alive(pid int) bool {
	if pid <= 0 {
		return false
	}
	return syscall.Kill(pid, 0) == nil
}

// Free returns a port reserved for this process until it exits.
func Free() string {
	mu.Lock()
	defer mu.Unlock()
	os.MkdirAll(dir, 0o777)
	for i := 0; i < 40000; i++ {
		next++
		if next >= 60000 {
			next = 20000
		}
		p := next
		lock := filepath.Join(dir, strconv.Itoa(p))
		f, err := os.OpenFile(lock, os.O_CREATE|os.O_EXCL|os.O_WRONLY, 0o666)
		if err != nil {
			// stale reservation of a dead process?
			if b, rerr := os.ReadFile(lock); rerr == nil {
				pid, _ := strconv.Atoi(strings.TrimSpace(string(b)))
				if !alive(pid) {
					os.Remove(lock)
				}
			}
			continue
		}
		fmt.Fprintf(f, "%d\n", os.Getpid())
		f.Close()
		l, err := net.Listen("tcp", fmt.Sprintf(":%d", p))
		if err != nil {
			os.Remove(lock)
			continue
		}
		l.Close()
		mine = append(mine, lock)
		return strconv.Itoa(p)
	}
	panic("ports: no free port")
}

// Release drops this process's reservations (best effort; stale files of dead
// processes are reclaimed by Free anyway).
func Release() {
	mu.Lock()
	defer mu.Unlock()
	for _, l := range mine {
		os.Remove(l)
	}
	mine = nil
}
