// C15 — AVX/SSE distance kernels agree with the portable kernels and stay in
// bounds. Three implementations on identical inputs, float64-anchored
// tolerance, vectors placed against PROT_NONE guard pages.
package c15

import (
	"fmt"
	"math"
	"math/rand"
	"runtime/debug"
	"sync"
	"sync/atomic"
	"syscall"
	"testing"
	"unsafe"

	"github.com/klauspost/cpuid"
	"github.com/marekgalovic/anndb/index/space"
	amath "github.com/marekgalovic/anndb/math"
	"verif/harness/mon"
)

const page = 4096
const dataPages = 6 // 24 KiB between the guards: room for 4096 floats + offsets

type arena struct {
	mem  []byte
	lo   uintptr // first byte after the lower guard
	hi   uintptr // first byte of the upper guard
	base uintptr
}

func newArena() (*arena, error) {
	n := (dataPages + 2) * page
	mem, err := syscall.Mmap(-1, 0, n, syscall.PROT_READ|syscall.PROT_WRITE, syscall.MAP_ANON|syscall.MAP_PRIVATE)
	if err != nil {
		return nil, err
	}
	if err := syscall.Mprotect(mem[:page], syscall.PROT_NONE); err != nil {
		return nil, err
	}
	if err := syscall.Mprotect(mem[n-page:], syscall.PROT_NONE); err != nil {
		return nil, err
	}
	base := uintptr(unsafe.Pointer(&mem[0]))
	return &arena{mem: mem, base: base, lo: base + page, hi: base + uintptr(n-page)}, nil
}

// place returns a []float32 of length n inside the arena.
// mode 0: last element ends exactly at the upper guard page;
// mode 1: first element starts exactly after the lower guard page;
// mode 2+k: starts k floats after the lower guard (alignment classes).
func (a *arena) place(n, mode int) []float32 {
	var start uintptr
	switch {
	case mode == 0:
		start = a.hi - uintptr(4*n)
	case mode == 1:
		start = a.lo
	default:
		start = a.lo + uintptr(4*(mode-2))
	}
	off := start - a.base
	return unsafe.Slice((*float32)(unsafe.Pointer(&a.mem[off])), n)
}

func (a *arena) inGuard(addr uintptr) bool {
	return (addr >= a.base && addr < a.lo) || (addr >= a.hi && addr < a.hi+page)
}

var classes = []string{"zeros", "small-ints", "uniform", "normal-1e3", "subnormal", "tiny-1e-25..1e-19", "small-1e-14..1e-10", "large-1e10..1e18", "huge-1e19..3e38", "one-huge-among-tiny", "one-hot"}

func fill(rng *rand.Rand, v []float32, class string, hot int) {
	for i := range v {
		switch class {
		case "zeros":
			v[i] = 0
		case "small-ints":
			v[i] = float32(rng.Intn(7) - 3)
		case "uniform":
			v[i] = rng.Float32()*2 - 1
		case "normal-1e3":
			v[i] = float32(rng.NormFloat64() * 1e3)
		case "subnormal":
			v[i] = math.Float32frombits(uint32(1+rng.Intn(1<<22))) * float32(1-2*rng.Intn(2))
		case "tiny-1e-25..1e-19":
			v[i] = float32(math.Pow(10, -25+6*rng.Float64())) * float32(1-2*rng.Intn(2))
		case "small-1e-14..1e-10":
			v[i] = float32(math.Pow(10, -14+4*rng.Float64())) * float32(1-2*rng.Intn(2))
		case "large-1e10..1e18":
			v[i] = float32(math.Pow(10, 10+8*rng.Float64())) * float32(1-2*rng.Intn(2))
		case "huge-1e19..3e38":
			v[i] = float32(math.Pow(10, 19+19.4*rng.Float64())) * float32(1-2*rng.Intn(2))
		case "one-huge-among-tiny":
			v[i] = float32(rng.NormFloat64() * 1e-3)
		case "one-hot":
			v[i] = float32(rng.Intn(3)-1) * 1e-3
		}
	}
	if class == "one-huge-among-tiny" && len(v) > 0 {
		v[rng.Intn(len(v))] = float32(1e4 * (1 + rng.Float64()))
	}
	if class == "one-hot" && len(v) > 0 {
		v[hot] = float32(100 * (1 + rng.Float64()))
	}
}

// reference computes, in float64, the exact-ish value of the metric and the
// admissible absolute deviation of a float32 implementation from it.
// ok=false: the reference is not comfortably inside float32 range (overflow
// boundary), no verdict on finiteness mismatches.
func reference(metric int, a, b []float32) (ref, tol float64, comfortable bool) {
	n := float64(len(a))
	u := math.Pow(2, -24)
	tiny := n * math.Pow(2, -126)
	k := 4 * (n + 4) * u
	switch metric {
	case 1: // euclidean
		var s float64
		for i := range a {
			d := float64(a[i]) - float64(b[i])
			s += d * d
		}
		eps := k*s + tiny
		lo, hi := math.Sqrt(math.Max(0, s-eps)), math.Sqrt(s+eps)
		ref = math.Sqrt(s)
		tol = (hi - lo) + 4*u*hi + math.Sqrt(tiny)
		return ref, tol, s < 1e37
	case 2: // manhattan
		var s float64
		for i := range a {
			s += math.Abs(float64(a[i]) - float64(b[i]))
		}
		return s, k*s + tiny, s < 1e37
	}
	var dot, na, nb, absdot float64
	for i := range a {
		x, y := float64(a[i]), float64(b[i])
		dot += x * y
		absdot += math.Abs(x * y)
		na += x * x
		nb += y * y
	}
	den := math.Sqrt(na) * math.Sqrt(nb)
	if den == 0 {
		return math.NaN(), 0, false
	}
	cos := dot / den
	tol = k*absdot/den + math.Abs(cos)*(2*k+8*u) + 8*u
	// comfortable: every intermediate (dot, norms, their product) is a normal float32
	comfortable = na < 1e37 && nb < 1e37 && na > 1e-30 && nb > 1e-30
	return 1 - cos, tol, comfortable
}

func call(impl space.SpaceImpl, metric int, a, b amath.Vector) float32 {
	switch metric {
	case 1:
		return impl.EuclideanDistance(a, b)
	case 2:
		return impl.ManhattanDistance(a, b)
	}
	return impl.CosineDistance(a, b)
}

var metricName = map[int]string{1: "euclidean", 2: "manhattan", 3: "cosine"}

type faultInfo struct {
	faulted bool
	addr    uintptr
	hasAddr bool
	msg     string
}

func safeCall(impl space.SpaceImpl, metric int, a, b amath.Vector) (res float32, f faultInfo) {
	defer func() {
		if r := recover(); r != nil {
			f.faulted = true
			f.msg = fmt.Sprint(r)
			if ae, ok := r.(interface{ Addr() uintptr }); ok {
				f.addr, f.hasAddr = ae.Addr(), true
			}
		}
	}()
	res = call(impl, metric, a, b)
	return
}

func lengths(rec *mon.Recorder) []int {
	var ls []int
	if rec.Quick() {
		for n := 1; n <= 300; n++ {
			ls = append(ls, n)
		}
		for _, c := range []int{512, 1024, 2048, 4096} {
			for n := c - 33; n <= c+1 && n <= 4096; n++ {
				ls = append(ls, n)
			}
		}
		return ls
	}
	for n := 1; n <= 4096; n++ {
		ls = append(ls, n)
	}
	return ls
}

func TestC15(t *testing.T) {
	rec := mon.Open("C15")
	defer rec.Finish(t)
	debug.SetPanicOnFault(true)
	impls := space.VerifImpls()
	order := []string{"native", "avx", "sse"}
	if !cpuid.CPU.AVX() {
		rec.Inconclusive("CPU has no AVX: avx kernels not executed")
		order = []string{"native", "sse"}
	}
	if !cpuid.CPU.SSE() {
		rec.Inconclusive("CPU has no SSE: sse kernels not executed")
		order = order[:len(order)-1]
	}
	arA, err := newArena()
	if err != nil {
		t.Fatal(err)
	}
	arB, err := newArena()
	if err != nil {
		t.Fatal(err)
	}
	inGuard := func(addr uintptr) bool { return arA.inGuard(addr) || arB.inGuard(addr) }

	type placement struct{ ma, mb int }
	caseNo := 0
	maxRatio := 0.0
	for _, n := range lengths(rec) {
		// placements: both at the upper guard, both at the lower guard, and offsets 0..7 floats
		pl := []placement{{0, 0}, {1, 1}, {0, 1}, {1, 0}}
		if n <= 64 {
			for ka := 0; ka < 8; ka++ {
				for kb := 0; kb < 8; kb++ {
					pl = append(pl, placement{2 + ka, 2 + kb})
				}
			}
		} else {
			for k := 0; k < 8; k++ {
				pl = append(pl, placement{2 + k, 2 + (3*k+n)%8}, placement{2 + k, 0})
			}
		}
		for pi, p := range pl {
			caseNo++
			if !rec.Mine(caseNo) {
				continue
			}
			rng := rec.Rand("c15", caseNo)
			a, b := arA.place(n, p.ma), arB.place(n, p.mb)
			alignedA := uintptr(unsafe.Pointer(&a[0]))%16 == 0
			alignedB := uintptr(unsafe.Pointer(&b[0]))%16 == 0
			// value classes: all of them on a rotating subset of placements
			for ci, class := range classes {
				if n > 64 && (ci+pi+n)%3 != 0 && pi >= 4 {
					continue
				}
				// one-hot: all the weight on one position — a tail position on even
				// placements, any position on odd ones — so that a dropped element
				// or lane changes the result far beyond the tolerance
				hot := ((n-1-(pi/2)%8)%n + n) % n
				if pi%2 == 1 {
					hot = rng.Intn(n)
				}
				fill(rng, a, class, hot)
				fill(rng, b, class, hot)
				if class == "one-hot" { // the weight sits on the same position in both
					b[hot] = -a[hot]
				}
				for metric := 1; metric <= 3; metric++ {
					ref, tol, comfortable := reference(metric, a, b)
					var nat float32
					for _, name := range order {
						impl := impls[name]
						rec.Current(fmt.Sprintf("impl=%s metric=%s n=%d placement=%d/%d class=%s", name, metricName[metric], n, p.ma, p.mb, class))
						res, f := safeCall(impl, metric, a, b)
						rec.Count("calls_"+name, 1)
						desc := map[string]interface{}{"impl": name, "metric": metricName[metric], "n": n, "placement_a": p.ma, "placement_b": p.mb,
							"aligned16_a": alignedA, "aligned16_b": alignedB, "class": class, "seed": rec.Seed(), "case": caseNo}
						if f.faulted {
							kind := "fault"
							switch {
							case f.hasAddr && inGuard(f.addr):
								kind = "out-of-bounds-access"
							case name == "sse" && (!alignedA || !alignedB) && n >= 4:
								kind = "misaligned16-n>=4-gp-fault"
							}
							desc["fault"] = f.msg
							desc["fault_addr"] = fmt.Sprintf("%#x", f.addr)
							rec.Violation(fmt.Sprintf("%s:%s:%s", name, metricName[metric], kind),
								fmt.Sprintf("n=%d placement=%d/%d: %s", n, p.ma, p.mb, f.msg), desc)
							continue
						}
						if name == "native" {
							nat = res
						}
						// agreement with the portable kernel, anchored in float64
						r64 := float64(res)
						n64 := float64(nat)
						bad := ""
						switch {
						case math.IsNaN(r64) || math.IsNaN(n64):
							if math.IsNaN(r64) != math.IsNaN(n64) && comfortable {
								bad = "nan-on-one-side"
							}
						case math.IsInf(r64, 0) || math.IsInf(n64, 0):
							if (math.IsInf(r64, 0) != math.IsInf(n64, 0) || r64 != n64) && comfortable {
								bad = "inf-on-one-side"
							}
						default:
							d := math.Abs(r64 - n64)
							if tol > 0 {
								if ratio := d / (2 * tol); ratio > maxRatio && ratio <= 1 && comfortable {
									maxRatio = ratio
								}
							}
							if d > 2*tol && comfortable {
								bad = "mismatch"
							} else if d > 2*tol {
								// an intermediate of the float32 computation leaves the normal
								// range: rounding analysis does not apply, no verdict
								rec.Count("skipped_outside_normal_range", 1)
							}
						}
						if bad != "" && name != "native" {
							desc["result"], desc["native"], desc["float64_reference"], desc["tolerance"] = res, nat, ref, tol
							if n <= 16 {
								desc["a"], desc["b"] = append([]float32(nil), a...), append([]float32(nil), b...)
							}
							rec.Violation(fmt.Sprintf("%s:%s:%s:%s", name, metricName[metric], bad, class),
								fmt.Sprintf("n=%d: %s=%v native=%v float64=%v tol=%v", n, name, res, nat, ref, tol), desc)
						}
						// symmetry, non-negativity, identity — every implementation
						if !comfortable {
							continue
						}
						rev, f2 := safeCall(impl, metric, b, a)
						if !f2.faulted && !math.IsNaN(r64) {
							if math.Abs(float64(rev)-r64) > 2*tol {
								rec.Violation(fmt.Sprintf("%s:%s:asymmetric:%s", name, metricName[metric], class), fmt.Sprintf("n=%d d(a,b)=%v d(b,a)=%v", n, res, rev), desc)
							}
							v := r64
							if metric == 3 {
								v = math.Abs(v) // the cosine space takes the absolute value
							}
							if v < 0 {
								rec.Violation(fmt.Sprintf("%s:%s:negative:%s", name, metricName[metric], class), fmt.Sprintf("n=%d d=%v", n, res), desc)
							}
						}
						if class != "zeros" || metric != 3 {
							self, f3 := safeCall(impl, metric, a, a)
							_, stol, sc := reference(metric, a, a)
							if !f3.faulted && sc && math.Abs(float64(self)) > 2*stol {
								rec.Violation(fmt.Sprintf("%s:%s:self-distance-nonzero:%s", name, metricName[metric], class), fmt.Sprintf("n=%d d(a,a)=%v", n, self), desc)
							}
						}
					}
				}
			}
			rec.Seen("lengths", fmt.Sprint(n))
			rec.Seen("placements", fmt.Sprintf("%d/%d", p.ma, p.mb))
			rec.Case(mon.Digest(n, p.ma, p.mb), true)
			if rec.WantSample() && n == 13 {
				rec.Sample(map[string]interface{}{"n": n, "placement_a": p.ma, "placement_b": p.mb, "classes": classes, "impls": order})
			}
		}
	}
	rec.Max("max_diff_over_tolerance_x1000", int64(maxRatio*1000))
	// Several callers at once on one implementation object, as an index's searches and inserts use their space: a
	// kernel's answer for given vectors is a function of those vectors, so each caller must keep getting, bit for bit,
	// the answer it got when it was alone - whatever the other callers are computing.
	for gi, name := range order {
		if name == "native" || !rec.Mine(7000001+gi) {
			continue
		}
		impl := impls[name]
		for metric := 1; metric <= 3; metric++ {
			const callers = 8
			type pair struct {
				a, b  amath.Vector
				alone float32
			}
			pairs := make([]pair, callers)
			crng := rec.Rand("c15-concurrent", gi*10+metric)
			for g := range pairs {
				n := []int{5, 6, 7, 24, 96, 97, 333}[(g+metric)%7]
				off := 1 + g%3 // starts that are not 16-byte aligned (and one that may be)
				bufA, bufB := make([]float32, n+8), make([]float32, n+8)
				a, b := amath.Vector(bufA[off:off+n]), amath.Vector(bufB[(off+1)%4:(off+1)%4+n])
				for i := range a {
					a[i], b[i] = float32(crng.NormFloat64()), float32(crng.NormFloat64())
				}
				pairs[g] = pair{a, b, call(impl, metric, a, b)}
			}
			var wg sync.WaitGroup
			var bad int64
			var first atomic.Value
			for g := range pairs {
				wg.Add(1)
				go func(g int) {
					defer wg.Done()
					p := pairs[g]
					for it := 0; it < 60000 && atomic.LoadInt64(&bad) == 0; it++ {
						if res := call(impl, metric, p.a, p.b); math.Float32bits(res) != math.Float32bits(p.alone) {
							if atomic.AddInt64(&bad, 1) == 1 {
								first.Store(fmt.Sprintf("caller %d (n=%d): %v while %d others call the same object, %v when called alone", g, len(p.a), res, callers-1, p.alone))
							}
							return
						}
					}
				}(g)
			}
			wg.Wait()
			rec.Count("concurrent_caller_rounds_"+name, 1)
			if bad > 0 {
				rec.Violation(fmt.Sprintf("%s:%s:answer-depends-on-concurrent-callers", name, metricName[metric]), first.Load().(string),
					map[string]interface{}{"impl": name, "metric": metricName[metric], "seed": rec.Seed()})
			}
			rec.Case(mon.Digest("concurrent", name, metric), true)
		}
	}
}
