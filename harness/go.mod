module verif/harness

go 1.23

require (
	github.com/anishathalye/porcupine v1.3.0
	github.com/coreos/etcd v3.3.19+incompatible
	github.com/dgraph-io/badger/v2 v2.0.3
	github.com/golang/protobuf v1.3.5
	github.com/marekgalovic/anndb v0.0.0
)

require (
	github.com/DataDog/zstd v1.4.1 // indirect
	github.com/cespare/xxhash v1.1.0 // indirect
	github.com/dgraph-io/ristretto v0.0.2-0.20200115201040-8f368f2f2ab3 // indirect
	github.com/dgryski/go-farm v0.0.0-20190423205320-6a90982ecee2 // indirect
	github.com/dustin/go-humanize v1.0.0 // indirect
	github.com/gogo/protobuf v1.3.1 // indirect
	github.com/golang/snappy v0.0.1 // indirect
	github.com/pkg/errors v0.8.1 // indirect
	github.com/shirou/gopsutil v2.20.5+incompatible // indirect
	golang.org/x/net v0.0.0-20190620200207-3b0461eec859 // indirect
	golang.org/x/sys v0.0.0-20190626221950-04f50cda93cb // indirect
	golang.org/x/text v0.3.0 // indirect
	google.golang.org/genproto v0.0.0-20190819201941-24fa4b261c55 // indirect
)

require (
	github.com/klauspost/cpuid v1.2.3
	github.com/satori/go.uuid v1.2.0
	github.com/sirupsen/logrus v1.5.0
	google.golang.org/grpc v1.28.0
)

replace github.com/marekgalovic/anndb => /repo
