module verif/harness

go 1.23

require (
	github.com/anishathalye/porcupine v1.3.0
	github.com/marekgalovic/anndb v0.0.0
)

require (
	github.com/klauspost/cpuid v1.2.3 // indirect
	github.com/satori/go.uuid v1.2.0
)

replace github.com/marekgalovic/anndb => /repo
