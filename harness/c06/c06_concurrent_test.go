// C06, groups sharing one database written at the same time: on a node every raft group (each partition replica, and
// the membership-and-catalogue group) has a ready-loop of its own that saves to the one Badger database. Several groups
// append concurrently here, each from its own goroutine, each with a reference MemoryStorage of its own; afterwards each
// group's log must answer exactly as its reference does - through the instance that wrote it and through a fresh one.
package c06

import (
	"fmt"
	"math/rand"
	"os"
	"path/filepath"
	"sync"
	"testing"

	etcdRaft "github.com/coreos/etcd/raft"
	"github.com/coreos/etcd/raft/raftpb"
	"github.com/marekgalovic/anndb/storage/wal"
	uuid "github.com/satori/go.uuid"
	"verif/harness/mon"
)

func TestC06Concurrent(t *testing.T) {
	rec := shared
	scratch := os.Getenv("VERIF_SCRATCH")
	if scratch == "" {
		scratch = t.TempDir()
	}
	n := rec.N(16, 200)
	for c := 0; c < n; c++ {
		if rec.Mine(c) {
			concurrentGroups(rec, scratch, c)
		}
	}
}

func concurrentGroups(rec *mon.Recorder, scratch string, c int) {
	rng := rec.Rand("c06-concurrent", c)
	dir := filepath.Join(scratch, fmt.Sprintf("c06c-db-%d", c))
	os.RemoveAll(dir)
	db, err := openDB(dir)
	if err != nil {
		rec.Inconclusive("open: " + err.Error())
		return
	}
	defer func() { db.Close(); os.RemoveAll(dir) }()
	ng := 2 + rng.Intn(5)
	rounds := 40 + rng.Intn(80)
	desc := fmt.Sprintf("concurrent-groups case=%d groups=%d rounds=%d", c, ng, rounds)
	var groups []*group
	for i := 0; i < ng; i++ {
		var id uuid.UUID
		rng.Read(id[:])
		if i > 0 && rng.Intn(2) == 0 { // adjacent key prefixes
			id = groups[i-1].id
			id[15]++
		}
		groups = append(groups, &group{id: id, w: wal.NewBadgerWAL(db, id), ref: etcdRaft.NewMemoryStorage(), flags: map[string]bool{}})
	}
	var wg sync.WaitGroup
	errs := make([]error, ng)
	for gi, g := range groups {
		wg.Add(1)
		go func(gi int, g *group, seed int64) {
			defer wg.Done()
			r := rand.New(rand.NewSource(seed))
			term, last := uint64(1), uint64(0)
			for round := 0; round < rounds; round++ {
				if r.Intn(10) == 0 {
					term++
				}
				var ents []raftpb.Entry
				for k := 0; k < 1+r.Intn(3); k++ {
					last++
					// payloads of very different sizes, tagged with group and index
					data := make([]byte, 8+r.Intn([]int{8, 60, 400, 3000}[r.Intn(4)]))
					r.Read(data)
					copy(data, fmt.Sprintf("g%d#%d", gi, last))
					ents = append(ents, raftpb.Entry{Index: last, Term: term, Type: raftpb.EntryNormal, Data: data})
				}
				hs := raftpb.HardState{Term: term, Vote: 1, Commit: last - uint64(r.Intn(2))}
				if err := g.w.Save(hs, ents, raftpb.Snapshot{}); err != nil {
					errs[gi] = fmt.Errorf("Save(ents[%d..%d]): %v", ents[0].Index, last, err)
					return
				}
				g.ref.Append(ents)
				g.ref.SetHardState(hs)
				g.term, g.vote, g.commit = hs.Term, hs.Vote, hs.Commit
			}
		}(gi, g, rng.Int63())
	}
	wg.Wait()
	rec.Count("groups_written_concurrently", int64(ng))
	fail := func(gi int, sym, detail, through string) {
		rec.Violation(fmt.Sprintf("%s:after-concurrent-saves-of-other-groups", sym), fmt.Sprintf("%s: g%d (%s): %s", desc, gi, through, detail),
			map[string]interface{}{"case": c, "seed": rec.Seed(), "desc": desc})
	}
	for gi := range groups {
		if errs[gi] != nil {
			fail(gi, "save-error", errs[gi].Error(), "writing instance")
			return
		}
	}
	for gi, g := range groups {
		if sym, detail := compare(g, rng); sym != "" {
			fail(gi, sym, detail, "the instance that wrote it")
			return
		}
	}
	for gi, g := range groups {
		g.w = wal.NewBadgerWAL(db, g.id)
		if sym, detail := compare(g, rng); sym != "" {
			fail(gi, sym, detail, "a fresh instance")
			return
		}
	}
	rec.Count("concurrent_group_logs_compared", int64(2*ng))
	rec.Case(mon.Digest(desc), true)
}
