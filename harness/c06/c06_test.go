// C06 — the Badger raft log honours the raft storage contract, per group,
// across reopen. Differential monitor against etcd/raft's MemoryStorage.
package c06

import (
	"bytes"
	"fmt"
	"math"
	"math/rand"
	"os"
	"path/filepath"
	"testing"

	etcdRaft "github.com/coreos/etcd/raft"
	"github.com/coreos/etcd/raft/raftpb"
	badger "github.com/dgraph-io/badger/v2"
	"github.com/marekgalovic/anndb/storage/wal"
	uuid "github.com/satori/go.uuid"
	"verif/harness/mon"
)

type group struct {
	id     uuid.UUID
	w      wal.WAL
	ref    *etcdRaft.MemoryStorage
	term   uint64 // current hard-state term
	vote   uint64
	commit uint64
	// classification of what has happened to this group so far
	flags map[string]bool
}

type env struct {
	dir string
	db  *badger.DB
}

func openDB(dir string) (*badger.DB, error) {
	return badger.Open(badger.LSMOnlyOptions(dir).WithLogger(nil).WithSyncWrites(false))
}

// one recorder for the package: TestC06 (sequential call sequences) and TestC06Concurrent (groups written at the
// same time) feed the same evidence
var shared *mon.Recorder

func TestMain(m *testing.M) {
	shared = mon.Open("C06")
	code := m.Run()
	shared.Close()
	os.Exit(code)
}

func TestC06(t *testing.T) {
	rec := shared
	scratch := os.Getenv("VERIF_SCRATCH")
	if scratch == "" {
		scratch = t.TempDir()
	}
	dir := filepath.Join(scratch, "c06-db")
	os.RemoveAll(dir)
	db, err := openDB(dir)
	if err != nil {
		t.Fatal(err)
	}
	e := &env{dir: dir, db: db}
	defer func() {
		e.db.Close()
		os.RemoveAll(dir)
	}()
	n := rec.N(1200, 40000)
	for c := 0; c < n; c++ {
		if rec.Mine(c) {
			runSeq(rec, e, c)
		}
	}
}

func entEqual(a, b raftpb.Entry) bool {
	return a.Index == b.Index && a.Term == b.Term && a.Type == b.Type && bytes.Equal(a.Data, b.Data)
}

func confEqual(a, b raftpb.ConfState) bool {
	if len(a.Nodes) != len(b.Nodes) || len(a.Learners) != len(b.Learners) {
		return false
	}
	for i := range a.Nodes {
		if a.Nodes[i] != b.Nodes[i] {
			return false
		}
	}
	return true
}

func snapEqual(a, b raftpb.Snapshot) bool {
	return a.Metadata.Index == b.Metadata.Index && a.Metadata.Term == b.Metadata.Term &&
		confEqual(a.Metadata.ConfState, b.Metadata.ConfState) && bytes.Equal(a.Data, b.Data)
}

// compare returns "" or (symptom, detail) for the first difference between the
// store and the reference.
func compare(g *group, rng *rand.Rand) (string, string) {
	rf, _ := g.ref.FirstIndex()
	rl, _ := g.ref.LastIndex()
	wf, err := g.w.FirstIndex()
	if err != nil || wf != rf {
		return "first-index", fmt.Sprintf("FirstIndex=%d,%v want %d", wf, err, rf)
	}
	wl, err := g.w.LastIndex()
	if err != nil || wl != rl {
		return "last-index", fmt.Sprintf("LastIndex=%d,%v want %d", wl, err, rl)
	}
	lo := uint64(0)
	if rf > 2 {
		lo = rf - 2
	}
	var probe []uint64
	if rl+2-lo <= 400 {
		for i := lo; i <= rl+2; i++ {
			probe = append(probe, i)
		}
	} else { // a long log: both ends completely, the middle sampled
		for i := lo; i < lo+100; i++ {
			probe = append(probe, i)
		}
		for i := rl - 100; i <= rl+2; i++ {
			probe = append(probe, i)
		}
		for k := 0; k < 150; k++ {
			probe = append(probe, lo+uint64(rng.Int63n(int64(rl-lo))))
		}
	}
	for _, i := range probe {
		rt, rerr := g.ref.Term(i)
		wt, werr := g.w.Term(i)
		if rerr != werr || rt != wt {
			return "term", fmt.Sprintf("Term(%d)=%d,%v want %d,%v (first %d last %d)", i, wt, werr, rt, rerr, rf, rl)
		}
	}
	// entry ranges
	check := func(lo, hi, max uint64) (string, string) {
		re, rerr := g.ref.Entries(lo, hi, max)
		we, werr := g.w.Entries(lo, hi, max)
		if rerr != werr {
			return "entries-error", fmt.Sprintf("Entries(%d,%d,%d) err %v want %v", lo, hi, max, werr, rerr)
		}
		if len(re) != len(we) {
			return "entries", fmt.Sprintf("Entries(%d,%d,%d) returned %d entries want %d", lo, hi, max, len(we), len(re))
		}
		for i := range re {
			if !entEqual(re[i], we[i]) {
				return "entries", fmt.Sprintf("Entries(%d,%d,%d)[%d] = {i%d t%d %v %x} want {i%d t%d %v %x}", lo, hi, max, i,
					we[i].Index, we[i].Term, we[i].Type, we[i].Data, re[i].Index, re[i].Term, re[i].Type, re[i].Data)
			}
		}
		return "", ""
	}
	if rl >= rf {
		if s, d := check(rf, rl+1, math.MaxUint64); s != "" {
			return s, d
		}
		for k := 0; k < 4; k++ {
			a := rf + uint64(rng.Intn(int(rl-rf+1)))
			b := a + 1 + uint64(rng.Intn(int(rl-a+1)))
			var max uint64
			switch rng.Intn(4) {
			case 0:
				max = math.MaxUint64
			case 1:
				max = 0
			case 2:
				max = uint64(rng.Intn(64))
			default: // exact boundary: the size of a prefix of the range
				if es, err := g.ref.Entries(a, b, math.MaxUint64); err == nil {
					n := 1 + rng.Intn(len(es))
					for _, e := range es[:n] {
						max += uint64(e.Size())
					}
					max = max - 1 + uint64(rng.Intn(3)) // one below, exactly, one above the boundary
				}
			}
			if s, d := check(a, b, max); s != "" {
				return s, d
			}
		}
	}
	if rf > 1 { // compacted range
		if s, d := check(rf-1, rf, math.MaxUint64); s != "" {
			return s, d
		}
		if rl >= rf {
			if s, d := check(rf-1, rl+1, math.MaxUint64); s != "" {
				return s, d
			}
		}
	}
	rs, _ := g.ref.Snapshot()
	ws, err := g.w.Snapshot()
	if err != nil || !snapEqual(rs, ws) {
		return "snapshot", fmt.Sprintf("Snapshot()={i%d t%d %v %x},%v want {i%d t%d %v %x}", ws.Metadata.Index, ws.Metadata.Term, ws.Metadata.ConfState.Nodes, ws.Data, err,
			rs.Metadata.Index, rs.Metadata.Term, rs.Metadata.ConfState.Nodes, rs.Data)
	}
	rhs, rcs, _ := g.ref.InitialState()
	whs, wcs, err := g.w.InitialState()
	if err != nil || rhs.Term != whs.Term || rhs.Vote != whs.Vote || rhs.Commit != whs.Commit || !confEqual(rcs, wcs) {
		return "initial-state", fmt.Sprintf("InitialState()={t%d v%d c%d} %v,%v want {t%d v%d c%d} %v", whs.Term, whs.Vote, whs.Commit, wcs.Nodes, err, rhs.Term, rhs.Vote, rhs.Commit, rcs.Nodes)
	}
	return "", ""
}

func runSeq(rec *mon.Recorder, e *env, c int) {
	rng := rec.Rand("c06", c)
	ng := 1 + rng.Intn(4)
	var groups []*group
	mkid := func(i int) uuid.UUID {
		if i == 0 && rng.Intn(3) == 0 {
			// uuid.Nil is the zero group's id; it must be wiped first because
			// every case shares the database
			id := uuid.Nil
			wal.NewBadgerWAL(e.db, id).DeleteGroup()
			wipeMeta(e.db, id)
			return id
		}
		var id uuid.UUID
		rng.Read(id[:])
		// adjacent prefixes: ids differing only in the last byte
		if i > 0 && rng.Intn(2) == 0 {
			id = groups[i-1].id
			id[15]++
		}
		return id
	}
	var calls []string
	for i := 0; i < ng; i++ {
		id := mkid(i)
		groups = append(groups, &group{id: id, w: wal.NewBadgerWAL(e.db, id), ref: etcdRaft.NewMemoryStorage(), flags: map[string]bool{}})
		calls = append(calls, fmt.Sprintf("g%d=new(%x)", i, id[:4]))
	}
	steps := 10 + rng.Intn(31)
	long := c%80 == 7
	if long {
		rec.Count("long_log_cases", 1)
	}
	saves, snapsInstalled, reopens := 0, 0, 0
	violated := false
	fail := func(g *group, gi int, sym, detail string) {
		violated = true
		ctx := "plain"
		for _, f := range []string{"deleted-group-object-reused", "deleted-group", "snapshot-install-inside-log", "snapshot-install-beyond-log", "reopened", "local-snapshot"} {
			if g.flags[f] {
				ctx = f
				break
			}
		}
		rec.Violation(fmt.Sprintf("%s:after-%s", sym, ctx), fmt.Sprintf("g%d: %s", gi, detail),
			map[string]interface{}{"case": c, "seed": rec.Seed(), "calls": calls})
	}
	bigLeft := 0
	if c%80 == 47 {
		bigLeft = 10 // ten entries of more than a megabyte (an unlimited range read of them exceeds 8 MiB): stored outside the LSM tree by the production options
		rec.Count("cases_with_megabyte_entries", 1)
	}
	data := func() []byte {
		if bigLeft > 0 {
			bigLeft--
			b := make([]byte, 1<<20+rng.Intn(4000))
			rng.Read(b[:64])
			return b
		}
		if rng.Intn(4) == 0 {
			return nil
		}
		b := make([]byte, rng.Intn(24))
		rng.Read(b)
		return b
	}
	for s := 0; s < steps && !violated; s++ {
		gi := rng.Intn(ng)
		g := groups[gi]
		first, _ := g.ref.FirstIndex()
		last, _ := g.ref.LastIndex()
		snap0, _ := g.ref.Snapshot()
		if g.term == 0 {
			g.term = 1
		}
		func() {
			defer func() {
				if p := recover(); p != nil {
					calls = append(calls, fmt.Sprintf("PANIC %v", p))
					fail(g, gi, "panic", fmt.Sprint(p))
				}
			}()
			switch r := rng.Intn(100); {
			case r < 45: // append (+ hard state)
				start := g.commit + 1 + uint64(rng.Intn(int(last-g.commit)+1))
				if rng.Intn(3) > 0 {
					start = last + 1
				}
				var ents []raftpb.Entry
				prevTerm, _ := g.ref.Term(start - 1)
				t := prevTerm
				if start <= last { // conflicting overwrite: strictly higher term than what is there
					old, _ := g.ref.Term(start)
					if old >= g.term {
						g.term = old + 1
					}
					t = g.term
				} else if rng.Intn(3) == 0 {
					g.term++
				}
				if t < g.term && rng.Intn(2) == 0 {
					t = g.term
				}
				if t < prevTerm {
					t = prevTerm
				}
				if t == 0 {
					t = 1
				}
				n := 1 + rng.Intn(5)
				if long && s < 5 && start == last+1 {
					// a long log: thousands of entries per batch, as after hours of writes between two snapshots
					n = 8300 + 450*s + int(start%97)
				}
				for i := 0; i < n; i++ {
					typ := raftpb.EntryNormal
					if rng.Intn(8) == 0 {
						typ = raftpb.EntryConfChange
					}
					ents = append(ents, raftpb.Entry{Index: start + uint64(i), Term: t, Type: typ, Data: data()})
				}
				if t > g.term {
					g.term = t
				}
				newLast := start + uint64(n) - 1
				hs := raftpb.HardState{}
				if long && s < 5 && n > 1000 {
					g.commit = newLast - 1
					hs = raftpb.HardState{Term: g.term, Vote: g.vote, Commit: g.commit}
				} else if rng.Intn(2) == 0 {
					if g.commit < newLast && rng.Intn(2) == 0 {
						g.commit += uint64(rng.Intn(int(newLast-g.commit) + 1))
					}
					g.vote = uint64(rng.Intn(3))
					hs = raftpb.HardState{Term: g.term, Vote: g.vote, Commit: g.commit}
				}
				calls = append(calls, fmt.Sprintf("g%d.Save(hs{t%d v%d c%d}, ents[%d..%d]@t%d, -)", gi, hs.Term, hs.Vote, hs.Commit, start, newLast, t))
				if err := g.w.Save(hs, ents, raftpb.Snapshot{}); err != nil {
					fail(g, gi, "save-error", err.Error())
					return
				}
				g.ref.Append(ents)
				if !etcdRaft.IsEmptyHardState(hs) {
					g.ref.SetHardState(hs)
				}
				saves++
			case r < 55: // hard state only
				if last > g.commit {
					g.commit += uint64(rng.Intn(int(last-g.commit) + 1))
				}
				if rng.Intn(3) == 0 {
					g.term++
				}
				hs := raftpb.HardState{Term: g.term, Vote: uint64(rng.Intn(3)), Commit: g.commit}
				calls = append(calls, fmt.Sprintf("g%d.Save(hs{t%d v%d c%d}, -, -)", gi, hs.Term, hs.Vote, hs.Commit))
				if err := g.w.Save(hs, nil, raftpb.Snapshot{}); err != nil {
					fail(g, gi, "save-error", err.Error())
					return
				}
				g.ref.SetHardState(hs)
				saves++
			case r < 67: // received snapshot: newer than the current snapshot and than commit
				base := g.commit
				if snap0.Metadata.Index > base {
					base = snap0.Metadata.Index
				}
				var idx uint64
				inside := false
				if last > base && rng.Intn(2) == 0 {
					idx = base + 1 + uint64(rng.Intn(int(last-base)))
					inside = true
				} else {
					idx = last + 1 + uint64(rng.Intn(5))
				}
				st := g.term
				if inside {
					// raft installs a snapshot at an index it holds only when the
					// terms differ (divergent tail); otherwise it fast-forwards commit
					lt, _ := g.ref.Term(idx)
					if st <= lt {
						st = lt + 1
					}
				}
				if st == 0 {
					st = 1
				}
				if st > g.term {
					g.term = st
				}
				snap := raftpb.Snapshot{Data: data(), Metadata: raftpb.SnapshotMetadata{Index: idx, Term: st,
					ConfState: raftpb.ConfState{Nodes: []uint64{1, 2, uint64(3 + rng.Intn(3))}}}}
				var ents []raftpb.Entry
				nl := idx
				if rng.Intn(2) == 0 { // trailing entries in the same Save
					for i, n := 0, 1+rng.Intn(3); i < n; i++ {
						nl = idx + 1 + uint64(i)
						ents = append(ents, raftpb.Entry{Index: nl, Term: g.term, Data: data()})
					}
				}
				g.commit = idx
				hs := raftpb.HardState{Term: g.term, Vote: g.vote, Commit: g.commit}
				calls = append(calls, fmt.Sprintf("g%d.Save(hs{t%d v%d c%d}, ents[%d], snap{i%d t%d}) inside=%v last=%d", gi, hs.Term, hs.Vote, hs.Commit, len(ents), idx, st, inside, last))
				if err := g.w.Save(hs, ents, snap); err != nil {
					fail(g, gi, "save-error", err.Error())
					return
				}
				g.ref.ApplySnapshot(snap)
				g.ref.Append(ents)
				g.ref.SetHardState(hs)
				if inside {
					g.flags["snapshot-install-inside-log"] = true
				} else {
					g.flags["snapshot-install-beyond-log"] = true
				}
				snapsInstalled++
				saves++
			case r < 79: // local snapshot + compaction at an applied index
				if g.commit <= snap0.Metadata.Index || g.commit < first {
					return
				}
				lo := snap0.Metadata.Index + 1
				if lo < first {
					lo = first
				}
				idx := lo + uint64(rng.Intn(int(g.commit-lo)+1))
				if long && g.commit-lo > 1000 {
					idx = g.commit - uint64(rng.Intn(3)) // compacts (nearly) the whole long log at once
				}
				cs := &raftpb.ConfState{Nodes: []uint64{1, uint64(2 + rng.Intn(3))}}
				d := data()
				calls = append(calls, fmt.Sprintf("g%d.CreateSnapshot(%d) commit=%d first=%d last=%d", gi, idx, g.commit, first, last))
				ws, err := g.w.CreateSnapshot(idx, cs, d)
				if err != nil {
					fail(g, gi, "create-snapshot-error", err.Error())
					return
				}
				rs, rerr := g.ref.CreateSnapshot(idx, cs, d)
				if rerr != nil {
					rec.Inconclusive(fmt.Sprintf("reference rejected CreateSnapshot(%d): %v", idx, rerr))
					return
				}
				g.ref.Compact(idx)
				if !snapEqual(ws, rs) {
					fail(g, gi, "create-snapshot-result", fmt.Sprintf("returned {i%d t%d} want {i%d t%d}", ws.Metadata.Index, ws.Metadata.Term, rs.Metadata.Index, rs.Metadata.Term))
					return
				}
				g.flags["local-snapshot"] = true
			case r < 91: // reopen: fresh instance (cold cache), sometimes a closed and reopened database
				if rng.Intn(4) == 0 {
					calls = append(calls, "db.Close+Open")
					if err := e.db.Close(); err != nil {
						rec.Inconclusive("db close: " + err.Error())
						violated = true
						return
					}
					db, err := openDB(e.dir)
					if err != nil {
						rec.Inconclusive("db reopen: " + err.Error())
						violated = true
						return
					}
					e.db = db
					for i, x := range groups {
						x.w = wal.NewBadgerWAL(e.db, x.id)
						x.flags["reopened"] = true
						calls = append(calls, fmt.Sprintf("g%d=reopen", i))
					}
				} else {
					calls = append(calls, fmt.Sprintf("g%d=reopen", gi))
					g.w = wal.NewBadgerWAL(e.db, g.id)
					g.flags["reopened"] = true
				}
				reopens++
			default: // delete the group and open a store for the same id again
				calls = append(calls, fmt.Sprintf("g%d.DeleteGroup+new", gi))
				if err := g.w.DeleteGroup(); err != nil {
					fail(g, gi, "delete-group-error", err.Error())
					return
				}
				g.flags = map[string]bool{"deleted-group": true}
				if s%2 == 0 {
					g.w = wal.NewBadgerWAL(e.db, g.id)
				} else {
					// the same store object goes on being used (what a partition does when its
					// replica is removed from this node and added back later)
					calls[len(calls)-1] = fmt.Sprintf("g%d.DeleteGroup+same-object", gi)
					g.flags["deleted-group-object-reused"] = true
				}
				g.ref = etcdRaft.NewMemoryStorage()
				g.term, g.vote, g.commit = 0, 0, 0
			}
		}()
		if violated {
			break
		}
		// the group acted on, and every other group (isolation), are compared
		for i, x := range groups {
			if i != gi && s%3 != 0 {
				continue
			}
			if sym, d := compare(x, rng); sym != "" {
				if i != gi {
					sym = "other-group-changed:" + sym
				}
				fail(x, i, sym, d)
				break
			}
			rec.Count("comparisons", 1)
		}
	}
	// every history ends with a reopen of every group (cold caches) and one more comparison
	if !violated {
		for i, x := range groups {
			x.w = wal.NewBadgerWAL(e.db, x.id)
			x.flags["reopened"] = true
			if sym, d := compare(x, rng); sym != "" {
				calls = append(calls, fmt.Sprintf("g%d=final-reopen", i))
				fail(x, i, sym, d)
				break
			}
			rec.Count("comparisons", 1)
		}
	}
	// leave no state behind in the shared database
	for _, g := range groups {
		g.w.DeleteGroup()
		wipeMeta(e.db, g.id)
	}
	rec.Count("saves", int64(saves))
	rec.Count("snapshot_installs", int64(snapsInstalled))
	rec.Count("reopens", int64(reopens))
	rec.Case(mon.Digest(calls), saves >= 3 && reopens >= 1)
	if rec.WantSample() && len(calls) < 18 {
		rec.Sample(map[string]interface{}{"case": c, "calls": calls})
	}
}

// wipeMeta removes the hard-state and snapshot keys of a group so that the
// next case using the shared database starts clean whatever DeleteGroup does.
func wipeMeta(db *badger.DB, id uuid.UUID) {
	db.Update(func(txn *badger.Txn) error {
		for _, p := range []string{"hs", "ss"} {
			k := append([]byte(p), id.Bytes()...)
			txn.Delete(k)
		}
		return nil
	})
}
