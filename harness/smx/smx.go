// Package smx generates replicated-log entries for a partition (all six change
// kinds) and holds the sequential map model they are checked against.
package smx

import (
	"fmt"
	"math/rand"
	"sort"
	"strings"

	"github.com/golang/protobuf/proto"
	"github.com/marekgalovic/anndb/index"
	amath "github.com/marekgalovic/anndb/math"
	pb "github.com/marekgalovic/anndb/protobuf"
	"github.com/marekgalovic/anndb/storage"
	uuid "github.com/satori/go.uuid"
	"verif/harness/hx"
)

type Entry struct {
	Change *pb.PartitionChange
	Bytes  []byte
	Desc   string
}

// Outcome is the model's expectation for one entry.
type Outcome struct {
	Batch  bool
	Err    error               // single forms
	Errors map[uuid.UUID]error // batch forms
}

type Model struct {
	Items hx.Ref
}

func NewModel() *Model { return &Model{Items: hx.Ref{}} }

func cloneMeta(m map[string]string) index.Metadata {
	if m == nil {
		return nil
	}
	out := index.Metadata{}
	for k, v := range m {
		out[k] = v
	}
	return out
}

func (m *Model) insert(id uuid.UUID, v []float32, md map[string]string) error {
	if _, ok := m.Items[id]; ok {
		return index.ItemAlreadyExistsError
	}
	m.Items[id] = &hx.Item{Vec: append(amath.Vector(nil), v...), Meta: cloneMeta(md)}
	return nil
}

func (m *Model) update(id uuid.UUID, v []float32, md map[string]string) error {
	old, ok := m.Items[id]
	if !ok {
		return index.ItemNotFoundError
	}
	merged := index.Metadata{}
	for k, x := range old.Meta {
		merged[k] = x
	}
	for k, x := range md {
		merged[k] = x // new keys win
	}
	m.Items[id] = &hx.Item{Vec: append(amath.Vector(nil), v...), Meta: merged}
	return nil
}

func (m *Model) remove(id uuid.UUID) error {
	if _, ok := m.Items[id]; !ok {
		return index.ItemNotFoundError
	}
	delete(m.Items, id)
	return nil
}

// Apply advances the model by one entry and returns the expected outcome.
func (m *Model) Apply(c *pb.PartitionChange) Outcome {
	id := uuid.FromBytesOrNil(c.GetId())
	switch c.Type {
	case pb.PartitionChangeType_PartitionChangeInsertValue:
		return Outcome{Err: m.insert(id, c.GetValue(), c.GetMetadata())}
	case pb.PartitionChangeType_PartitionChangeUpdateValue:
		return Outcome{Err: m.update(id, c.GetValue(), c.GetMetadata())}
	case pb.PartitionChangeType_PartitionChangeDeleteValue:
		return Outcome{Err: m.remove(id)}
	}
	out := Outcome{Batch: true, Errors: map[uuid.UUID]error{}}
	for _, it := range c.GetBatchItems() {
		iid := uuid.FromBytesOrNil(it.GetId())
		var err error
		switch c.Type {
		case pb.PartitionChangeType_PartitionChangeBatchInsertValue:
			err = m.insert(iid, it.GetValue(), it.GetMetadata())
		case pb.PartitionChangeType_PartitionChangeBatchUpdateValue:
			err = m.update(iid, it.GetValue(), it.GetMetadata())
		case pb.PartitionChangeType_PartitionChangeBatchDeleteValue:
			err = m.remove(iid)
		}
		if err != nil {
			out.Errors[iid] = err
		}
	}
	return out
}

// CompareOutcome checks what the state machine delivered against the model.
// Batches in which the same id both succeeded and failed are compared on the
// ids for which every item agreed (mixed ids may be either).
func CompareOutcome(want Outcome, c *pb.PartitionChange, got interface{}, delivered bool) string {
	if !delivered {
		return "outcome-not-delivered"
	}
	if !want.Batch {
		if want.Err == nil {
			if got != nil {
				return fmt.Sprintf("outcome %v want success", got)
			}
			return ""
		}
		if e, ok := got.(error); !ok || e != want.Err {
			return fmt.Sprintf("outcome %v want %v", got, want.Err)
		}
		return ""
	}
	m, ok := storage.VerifBatchResult(got)
	if !ok {
		return fmt.Sprintf("batch outcome has type %T", got)
	}
	// per id: did all items fail / all succeed in the model?
	total, failed := map[uuid.UUID]int{}, map[uuid.UUID]int{}
	for _, it := range c.GetBatchItems() {
		total[uuid.FromBytesOrNil(it.GetId())]++
	}
	for id := range want.Errors {
		failed[id] = total[id] // refined below
	}
	// recompute failures exactly is not possible from want.Errors alone when an
	// id repeats; treat ids that repeat inside the batch as "mixed allowed"
	for id, n := range total {
		werr, wfail := want.Errors[id]
		gerr, gfail := m[id]
		if n > 1 {
			if gfail && wfail && gerr != werr {
				return fmt.Sprintf("batch id %s error %v want %v", id, gerr, werr)
			}
			continue
		}
		if wfail != gfail || (wfail && gerr != werr) {
			return fmt.Sprintf("batch id %s error %v (present=%v) want %v (present=%v)", id, gerr, gfail, werr, wfail)
		}
	}
	for id := range m {
		if _, ok := total[id]; !ok {
			return fmt.Sprintf("batch error for id %s that was not in the batch", id)
		}
	}
	return ""
}

type Gen struct {
	Rng      *rand.Rand
	Dim      int
	Universe int
	Metric   int
	// LongMeta: about one metadata map in six carries a key longer than 255 bytes or a value longer than 65535 bytes
	// (what the snapshot format's length fields cannot express; a partition holds them like any other item)
	LongMeta bool
	// ZeroId: member 0 of the id universe is the all-zero id (an id like any other)
	ZeroId bool
	n      int
}

// IdOf returns member j of the generator's id universe.
func (g *Gen) IdOf(j int) uuid.UUID {
	if g.ZeroId && j == 0 {
		return uuid.UUID{}
	}
	return hx.Id(j)
}

// ShowMeta prints a metadata map with long strings abbreviated.
func ShowMeta(m map[string]string) string {
	ab := func(x string) string {
		if len(x) > 40 {
			return fmt.Sprintf("%q*%d", x[:1], len(x))
		}
		return x
	}
	keys := make([]string, 0, len(m))
	for k := range m {
		keys = append(keys, k)
	}
	sort.Strings(keys)
	out := "map["
	for i, k := range keys {
		if i > 0 {
			out += " "
		}
		out += ab(k) + ":" + ab(m[k])
	}
	return out + "]"
}

func (g *Gen) vec() []float32 {
	c := hx.Cfg{Dim: g.Dim, Metric: g.Metric, Ints: g.n%2 == 0}
	return c.Vec(g.Rng)
}

// OverLong reports whether a metadata map carries a key or a value that the snapshot format's length fields cannot
// express.
func OverLong(m map[string]string) bool {
	for k, v := range m {
		if len(k) > 255 || len(v) > 65535 {
			return true
		}
	}
	return len(m) > 65535
}

func (g *Gen) meta() map[string]string { return g.metaOf(true) }

func (g *Gen) metaOf(single bool) map[string]string {
	if single && g.LongMeta && g.Rng.Intn(6) == 0 {
		if g.Rng.Intn(3) > 0 {
			return map[string]string{strings.Repeat("K", 256+g.Rng.Intn(40)): "v", "k1": "short"}
		}
		return map[string]string{"k2": strings.Repeat("V", 65536+g.Rng.Intn(40))}
	}
	switch g.Rng.Intn(5) {
	case 0:
		return nil
	case 1:
		return map[string]string{}
	case 2:
		return map[string]string{"": "", "k0": ""}
	}
	m := map[string]string{}
	for i, n := 0, 1+g.Rng.Intn(3); i < n; i++ {
		m[fmt.Sprintf("k%d", g.Rng.Intn(4))] = fmt.Sprintf("v%d", g.Rng.Intn(50))
	}
	return m
}

func (g *Gen) item() *pb.BatchItem {
	return &pb.BatchItem{Id: g.IdOf(g.Rng.Intn(g.Universe)).Bytes(), Value: g.vec(), Metadata: g.metaOf(false), Level: int32(g.Rng.Intn(g.Rng.Intn(4) + 1))}
}

// Next generates one log entry. The notification id is fresh per entry, as a
// proposer's would be.
func (g *Gen) Next() *Entry {
	g.n++
	c := &pb.PartitionChange{NotificationId: uuid.NewV4().Bytes()}
	id := g.IdOf(g.Rng.Intn(g.Universe))
	desc := ""
	switch r := g.Rng.Intn(100); {
	case r < 30:
		c.Type, c.Id, c.Value, c.Metadata, c.Level = pb.PartitionChangeType_PartitionChangeInsertValue, id.Bytes(), g.vec(), g.meta(), int32(g.Rng.Intn(g.Rng.Intn(4)+1))
		desc = fmt.Sprintf("insert %d L%d meta=%v", hx.IdNum(id), c.Level, ShowMeta(c.Metadata))
	case r < 50:
		c.Type, c.Id, c.Value, c.Metadata = pb.PartitionChangeType_PartitionChangeUpdateValue, id.Bytes(), g.vec(), g.meta()
		desc = fmt.Sprintf("update %d meta=%v", hx.IdNum(id), ShowMeta(c.Metadata))
	case r < 70:
		c.Type, c.Id = pb.PartitionChangeType_PartitionChangeDeleteValue, id.Bytes()
		desc = fmt.Sprintf("delete %d", hx.IdNum(id))
	default:
		n := 1 + g.Rng.Intn(5)
		kind := g.Rng.Intn(3)
		c.Type = []pb.PartitionChangeType{pb.PartitionChangeType_PartitionChangeBatchInsertValue, pb.PartitionChangeType_PartitionChangeBatchUpdateValue, pb.PartitionChangeType_PartitionChangeBatchDeleteValue}[kind]
		desc = []string{"batch-insert", "batch-update", "batch-delete"}[kind]
		for i := 0; i < n; i++ {
			it := g.item()
			if kind == 2 {
				it = &pb.BatchItem{Id: it.Id}
			}
			if i > 0 && g.Rng.Intn(6) == 0 { // duplicate inside one batch
				it.Id = c.BatchItems[g.Rng.Intn(i)].Id
			}
			c.BatchItems = append(c.BatchItems, it)
			desc += fmt.Sprintf(" %d", hx.IdNum(uuid.FromBytesOrNil(it.Id)))
			if kind != 2 {
				desc += fmt.Sprintf("(meta=%v)", ShowMeta(it.Metadata))
			}
		}
	}
	b, err := proto.Marshal(c)
	if err != nil {
		panic(err)
	}
	return &Entry{Change: c, Bytes: b, Desc: desc}
}

// Decode returns a fresh copy of the entry's change as a replica would decode it.
func (e *Entry) Decode() *pb.PartitionChange {
	var c pb.PartitionChange
	if err := proto.Unmarshal(e.Bytes, &c); err != nil {
		panic(err)
	}
	return &c
}

func SpaceOf(metric int) pb.Space {
	switch metric {
	case 1:
		return pb.Space_Euclidean
	case 2:
		return pb.Space_Manhattan
	}
	return pb.Space_Cosine
}
