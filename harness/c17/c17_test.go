// C17 — dataset size is the sum of its partitions, each counted once.
package c17

import (
	"context"
	"errors"
	"fmt"
	"os"
	"strings"
	"sync"
	"sync/atomic"
	"testing"
	"time"

	"google.golang.org/grpc"

	pb "github.com/marekgalovic/anndb/protobuf"
	"github.com/marekgalovic/anndb/utils"
	uuid "github.com/satori/go.uuid"
	"verif/harness/hx"
	"verif/harness/mon"
	"verif/harness/sim"
)

func TestC17(t *testing.T) {
	rec := mon.Open("C17")
	defer rec.Finish(t)
	n := rec.N(10, 120)
	for c := 0; c < n; c++ {
		if rec.Mine(c) {
			runTopology(rec, c)
		}
	}
}

func runTopology(rec *mon.Recorder, c int) {
	rng := rec.Rand("c17", c)
	nodes := 1 + rng.Intn(4)
	parts := 1 + rng.Intn(8)
	repl := 1 + rng.Intn(3)
	if c%3 == 0 && nodes < 3 { // make sure non-hosting nodes with several remote partitions occur often
		nodes, repl = 3+rng.Intn(2), 1
		if parts < 3 {
			parts = 3 + rng.Intn(5)
		}
	}
	wide := c%10 == 7 || c%10 == 3
	if wide {
		// a dataset of dozens of single-replica partitions on three nodes: every node asks for a few dozen remote
		// partitions at once (more than any bound on concurrent lookups)
		nodes, repl, parts = 3, 1, 40+rng.Intn(25)
	}
	desc := fmt.Sprintf("case=%d nodes=%d partitions=%d replication=%d", c, nodes, parts, repl)
	rec.Current(desc)
	cl := sim.New(sim.Options{Nodes: nodes, Dir: os.Getenv("VERIF_SCRATCH") + fmt.Sprintf("/c17-%d", c), TickEvery: 10 * time.Millisecond, Seed: rec.Seed() + int64(c)})
	defer cl.Close()
	if err := cl.Start(); err != nil {
		rec.Inconclusive(desc + ": cluster start: " + err.Error())
		return
	}
	dim := uint32(3)
	dsId, meta, err := cl.CreateDataset(rng.Intn(nodes), dim, uint32(parts), uint32(repl), pb.Space_Euclidean)
	if err != nil {
		rec.Inconclusive(desc + ": create dataset: " + err.Error())
		return
	}
	// distinct partition sizes, so that a double count cannot cancel out
	want := make([]int, parts)
	for p := range want {
		want[p] = 1 + p*2 + rng.Intn(2)
		if wide {
			want[p] = 1 + p%4 + rng.Intn(2)
		}
	}
	have := make([]int, parts)
	ctx := context.Background()
	nextId := 0
	var inserted []uuid.UUID
	for done := false; !done; {
		done = true
		id := hx.Id(nextId)
		nextId++
		p := int(utils.UuidMod(id, uint64(parts)))
		if have[p] < want[p] {
			via := cl.Nodes[rng.Intn(nodes)]
			ictx, cancel := context.WithTimeout(ctx, 8*time.Second)
			err := via.Dataset(dsId).Insert(ictx, id, []float32{float32(nextId), 1, 2}, map[string]string{"n": fmt.Sprint(nextId)})
			cancel()
			if err != nil {
				rec.Inconclusive(fmt.Sprintf("%s: insert failed: %v", desc, err))
				return
			}
			have[p]++
			inserted = append(inserted, id)
		}
		for q := range want {
			if have[q] < want[q] {
				done = false
			}
		}
	}
	pids := make([]uuid.UUID, parts)
	for i, p := range meta.Partitions {
		pids[i] = uuid.FromBytesOrNil(p.Id)
	}
	// quiescence: every hosting replica has applied its partition's inserts
	err = cl.WaitFor(20*time.Second, func() bool {
		for _, n := range cl.Nodes {
			d := n.Dataset(dsId)
			for i, pid := range pids {
				for _, nid := range d.VerifPartitionNodeIds(pid) {
					if nid == n.Id {
						idx := n.PartitionIndex(dsId, pid)
						if idx == nil || idx.Len() != want[i] {
							return false
						}
					}
				}
			}
		}
		return true
	})
	if err != nil {
		rec.Inconclusive(desc + ": replicas did not reach the expected sizes")
		return
	}
	// harness-known truth: per-partition (len, bytes) as reported by a hosting node
	placement := map[int][]uint64{}
	for i, pid := range pids {
		placement[i] = cl.Nodes[0].Dataset(dsId).VerifPartitionNodeIds(pid)
	}
	replay := map[string]interface{}{"case": c, "seed": rec.Seed(), "desc": desc, "partition_sizes": want, "placement": placement}
	hosts := func(i int, id uint64) bool {
		for _, h := range placement[i] {
			if h == id {
				return true
			}
		}
		return false
	}
	var sumLen, sumBytes uint64
	checked := 0
	checkSizes := func(phase string) bool {
		sumLen, sumBytes = 0, 0
		phaseSym := ""
		if phase != "as-populated" {
			phaseSym = ":" + phase
		}
		for i, pid := range pids {
			var l, b uint64
			found := false
			for _, n := range cl.Nodes {
				if !hosts(i, n.Id) {
					continue
				}
				// the truth is what the replica's index holds, read from the index itself
				idx := n.PartitionIndex(dsId, pid)
				if idx == nil {
					continue
				}
				il, ib := uint64(idx.Len()), idx.BytesSize()
				if found && (il != l || ib != b) {
					rec.Inconclusive(fmt.Sprintf("%s: replicas of partition %d hold different sizes while quiescent (%s)", desc, i, phase))
					return false
				}
				l, b, found = il, ib, true
				// and the replica answers a lookup (its own node's sum, and any other node's remote lookup) with exactly that
				pl, pb2, err := n.Dataset(dsId).PartitionInfo(ctx, pid)
				rec.Count("lookups_served_by_hosting_nodes_checked", 1)
				if err == nil && (pl != il || pb2 != ib) {
					rec.Violation("partitioninfo:hosting-node-answers-with-a-wrong-size:"+phase, fmt.Sprintf("%s: node %d holds partition %d with (%d,%d) and answers its size lookup with (%d,%d)", desc, n.Id, i, il, ib, pl, pb2), replay)
					return false
				}
			}
			if !found || int(l) != want[i] {
				rec.Inconclusive(fmt.Sprintf("%s: partition %d size unknown (%s)", desc, i, phase))
				return false
			}
			sumLen += l
			sumBytes += b
			// the serving half of a remote lookup: a node that does not hold the
			// partition must not answer for it with anything but its true size (a
			// caller whose placement view lags would add that number to its sum)
			for _, n := range cl.Nodes {
				if hosts(i, n.Id) {
					continue
				}
				pl, pb2, err := n.Dataset(dsId).PartitionInfo(ctx, pid)
				rec.Count("lookups_served_by_non_hosting_nodes_checked", 1)
				if err == nil && (pl != l || pb2 != b) {
					rec.Violation("partitioninfo:non-hosting-node-answers-with-a-wrong-size", fmt.Sprintf("%s: node %d does not hold partition %d (placement %v) yet answers its size lookup with (%d,%d) and no error; the partition holds (%d,%d)", desc, n.Id, i, placement[i], pl, pb2, l, b), replay)
					return false
				}
			}
		}
		for _, n := range cl.Nodes {
			remote := 0
			for _, ids := range placement {
				host := false
				for _, id := range ids {
					if id == n.Id {
						host = true
					}
				}
				if !host {
					remote++
				}
			}
			class := "all-local"
			if remote == 1 {
				class = "one-remote-partition"
			} else if remote > 1 {
				class = "several-remote-partitions"
			}
			for rep := 0; rep < 5; rep++ {
				sctx, cancel := context.WithTimeout(ctx, 5*time.Second)
				l, b, err := n.Dataset(dsId).SizeInfo(sctx)
				cancel()
				checked++
				if err != nil {
					rec.Violation("sizeinfo:unexpected-error:"+class, fmt.Sprintf("%s node %d: %v", desc, n.Id, err), replay)
					break
				}
				if l != sumLen || b != sumBytes {
					rec.Violation("sizeinfo:wrong-sum:"+class+phaseSym, fmt.Sprintf("%s node %d (remote partitions %d, %s): SizeInfo=(%d,%d) want (%d,%d)", desc, n.Id, remote, phase, l, b, sumLen, sumBytes), replay)
					break
				}
			}
			rec.Seen("placement_classes", class)
		}
		return rec.Violations() == 0
	}
	if !checkSizes("as-populated") {
		return
	}
	// Changes that alter what a partition holds without altering how many items it holds: updates whose metadata is
	// longer, and a removal paired with an insertion into the same partition. Every node has just been asked for the
	// sizes; asked again, each must report the sum of what the partitions hold now.
	if len(inserted) > 0 {
		changed := map[uuid.UUID]float32{}
		for u := 0; u < 1+rng.Intn(3); u++ {
			id := inserted[rng.Intn(len(inserted))]
			val := strings.Repeat("x", 10+rng.Intn(900))
			via := cl.Nodes[rng.Intn(nodes)]
			uctx, cancel := context.WithTimeout(ctx, 8*time.Second)
			err := via.Dataset(dsId).Update(uctx, id, []float32{float32(u), 2, 3}, map[string]string{"grown": val})
			cancel()
			if err != nil {
				rec.Inconclusive(fmt.Sprintf("%s: update failed: %v", desc, err))
				return
			}
			changed[id] = float32(u)
		}
		if err := cl.WaitFor(20*time.Second, func() bool {
			for id, val := range changed {
				i := int(utils.UuidMod(id, uint64(parts)))
				for _, n := range cl.Nodes {
					if !hosts(i, n.Id) {
						continue
					}
					idx := n.PartitionIndex(dsId, pids[i])
					if idx == nil {
						return false
					}
					v, err := idx.Get(id)
					if err != nil || len(v) != 3 || v[0] != val || v[1] != 2 || v[2] != 3 {
						return false
					}
				}
			}
			return true
		}); err != nil {
			rec.Inconclusive(desc + ": replicas did not apply the updates")
			return
		}
		rec.Count("size_checks_after_count_preserving_changes", 1)
		if !checkSizes("after-updates-that-keep-the-item-count") {
			return
		}
	}
	// What a client is told: the same numbers through the public DatasetManager service of every node (GetDatasetSize,
	// Get and List with sizes), while other clients of that node ask for the same dataset without sizes. Two more
	// datasets exist by now, so that a listing spends time between computing one dataset's size and sending it.
	if rec.Violations() == 0 && c%2 == 0 {
		for i := 0; i < 2; i++ {
			cl.CreateDataset(0, 2, 2, 1, pb.Space_Euclidean)
		}
		for _, n := range cl.Nodes {
			cc, derr := grpc.Dial(n.Addr, grpc.WithInsecure())
			if derr != nil {
				continue
			}
			dmc := pb.NewDatasetManagerClient(cc)
			var stop int32
			var pg sync.WaitGroup
			for k := 0; k < 2; k++ {
				pg.Add(1)
				go func() {
					defer pg.Done()
					for atomic.LoadInt32(&stop) == 0 {
						gctx, cancel := context.WithTimeout(ctx, 2*time.Second)
						dmc.Get(gctx, &pb.GetDatasetRequest{DatasetId: dsId.Bytes(), WithSize: false})
						cancel()
					}
				}()
			}
			bad := ""
			for rep := 0; rep < 6 && bad == ""; rep++ {
				gctx, cancel := context.WithTimeout(ctx, 5*time.Second)
				if sz, err := dmc.GetDatasetSize(gctx, &pb.GetDatasetRequest{DatasetId: dsId.Bytes()}); err == nil && (sz.GetLen() != sumLen || sz.GetBytesSize() != sumBytes) {
					bad = fmt.Sprintf("GetDatasetSize answered (%d,%d)", sz.GetLen(), sz.GetBytesSize())
				}
				if d, err := dmc.Get(gctx, &pb.GetDatasetRequest{DatasetId: dsId.Bytes(), WithSize: true}); err == nil && bad == "" && d.GetSize() != sumLen {
					bad = fmt.Sprintf("Get with its size answered %d items", d.GetSize())
				}
				if st, err := dmc.List(gctx, &pb.ListDatasetsRequest{WithSize: true}); err == nil && bad == "" {
					for {
						d, rerr := st.Recv()
						if rerr != nil {
							break
						}
						if uuid.Equal(uuid.FromBytesOrNil(d.GetId()), dsId) && d.GetSize() != sumLen {
							bad = fmt.Sprintf("List with sizes answered %d items", d.GetSize())
						}
					}
				}
				cancel()
				rec.Count("sizes_asked_through_the_service_while_others_ask_without", 3)
			}
			atomic.StoreInt32(&stop, 1)
			pg.Wait()
			cc.Close()
			if bad != "" {
				rec.Violation("service:wrong-size-without-error", fmt.Sprintf("%s: node %d: %s and no error while other clients ask for the dataset without sizes; the partitions hold (%d,%d)", desc, n.Id, bad, sumLen, sumBytes), replay)
				break
			}
		}
	}
	// injected failure of a needed remote lookup: the call must fail
	for _, n := range cl.Nodes {
		remoteHosts := map[uint64]bool{}
		for _, ids := range placement {
			host := false
			for _, id := range ids {
				if id == n.Id {
					host = true
				}
			}
			if !host {
				for _, id := range ids {
					remoteHosts[id] = true
				}
			}
		}
		if len(remoteHosts) == 0 {
			continue
		}
		for _, mode := range []string{"error", "hang"} {
			for id := range remoteHosts {
				f := sim.RPCFault{Err: errors.New("injected PartitionInfo failure")}
				if mode == "hang" {
					f = sim.RPCFault{Hang: true}
				}
				cl.Nodes[id-1].SetFault("PartitionInfo", f)
			}
			sctx, cancel := context.WithTimeout(ctx, 700*time.Millisecond)
			l, b, err := n.Dataset(dsId).SizeInfo(sctx)
			cancel()
			for id := range remoteHosts {
				cl.Nodes[id-1].ClearFaults()
			}
			checked++
			rec.Count("fault_cases", 1)
			if err == nil {
				rec.Violation("sizeinfo:success-despite-failed-lookup:"+mode, fmt.Sprintf("%s node %d: every remote PartitionInfo %s, SizeInfo returned (%d,%d) without error (truth (%d,%d))", desc, n.Id, mode, l, b, sumLen, sumBytes), replay)
			}
		}
	}
	// A node that holds replicas leaves the cluster (removed from the membership; the catalogue still lists it; the
	// nodes that asked it before hold client connections to it, now closed). A partition's size then comes from
	// another replica, or the call fails: it never returns the sum of the remaining partitions.
	if nodes >= 2 && rec.Violations() == 0 {
		var gone *sim.Node
		for _, n := range cl.Nodes[1:] {
			for i := range pids {
				if hosts(i, n.Id) {
					gone = n
				}
			}
		}
		var rmErr error
		if gone != nil && cl.Guard(20*time.Second, func() { rmErr = cl.Nodes[0].In.NodesManager.RemoveNode(gone.Id) }) && rmErr == nil {
			var left []*sim.Node
			for _, n := range cl.Nodes {
				if n != gone {
					left = append(left, n)
				}
			}
			cl.WaitFor(10*time.Second, func() bool {
				for _, n := range left {
					if _, listed := n.In.ClusterConn.Nodes()[gone.Id]; listed {
						return false
					}
				}
				return true
			})
			cl.Crash(gone.Idx)
			calls := 8 * len(left)
			if wide {
				calls = 30 * len(left)
			}
			for s := 0; s < calls; s++ {
				n := left[s%len(left)]
				sctx, cancel := context.WithTimeout(ctx, 3*time.Second)
				l, b, err := n.Dataset(dsId).SizeInfo(sctx)
				cancel()
				checked++
				rec.Count("sizeinfo_calls_after_a_node_left", 1)
				if err != nil {
					rec.Count("sizeinfo_calls_after_a_node_left_failed_loudly", 1)
					continue
				}
				if l != sumLen || b != sumBytes {
					rec.Violation("sizeinfo:wrong-sum:after-a-node-left-the-cluster", fmt.Sprintf("%s node %d: node %d has left the cluster; SizeInfo=(%d,%d) without error, the partitions hold (%d,%d)", desc, n.Id, gone.Id, l, b, sumLen, sumBytes), replay)
					break
				}
			}
		}
	}
	rec.Count("sizeinfo_calls_checked", int64(checked))
	rec.Case(mon.Digest(desc, want, fmt.Sprint(placement)), parts >= 2)
	if rec.WantSample() {
		rec.Sample(replay)
	}
}
