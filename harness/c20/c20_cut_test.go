// C20, message loss during the join handshake itself: the member that is asked applies the join and starts to stream
// its list of members back, and the connection is lost after the first one or two entries. Either the joining node
// takes that as a failure (the join is not acknowledged; its process exits, starts again and asks again - over a good
// link here), or it takes it as an acknowledgement. Once the join is acknowledged, every member - the new one
// included - lists every member with the address it announced.
package c20

import (
	"fmt"
	"os"
	"testing"
	"time"

	"google.golang.org/grpc/codes"
	"google.golang.org/grpc/status"
	"verif/harness/mon"
	"verif/harness/sim"
)

func TestC20JoinAnswerCutShort(t *testing.T) {
	rec := shared
	if os.Getenv("VERIF_CASE") != "" {
		return
	}
	n := rec.N(9, 36)
	for c := 0; c < n; c++ {
		if rec.Mine(c + 3) {
			joinAnswerCutShort(rec, c)
		}
	}
}

func joinAnswerCutShort(rec *mon.Recorder, c int) {
	members := 2 + c%2 // 2 or 3 members before the join
	cut := (c / 2) % 3 // 0: the request itself is lost (nothing reaches the member); 1, 2: the answer breaks after that many entries
	r := &run{rec: rec, c: c, desc: fmt.Sprintf("join-answer-cut-short case=%d members=%d asked=node-%d answer-cut-after=%d", c, members, 1+c%members, cut)}
	rec.Current(r.desc)
	r.cl = sim.New(sim.Options{Nodes: members + 1, Dir: os.Getenv("VERIF_SCRATCH") + fmt.Sprintf("/c20cut-%d", c), TickEvery: 5 * time.Millisecond, Seed: rec.Seed() + int64(c), NoJoinBarrier: true})
	defer r.cl.Close()
	if !r.startMembers(members) {
		return
	}
	cl := r.cl
	asked := cl.Nodes[c%members]
	joiner := cl.Nodes[members]
	joiner.JoinVia = asked.Addr
	if cut == 0 {
		asked.SetFault("AddNode", sim.RPCFault{Err: status.Error(codes.Unavailable, "sim: connection lost before the request arrived")})
	} else {
		asked.SetFault("AddNode", sim.RPCFault{CutAfter: cut})
	}
	err := cl.StartNode(joiner.Idx)
	asked.ClearFaults()
	if err != nil {
		// not acknowledged: cmd/anndb exits on a failed join; the process starts again and repeats the handshake
		r.note(fmt.Sprintf("join through node %d failed (%v); node %d starts again", asked.Id, err, joiner.Id))
		rec.Count("join_answers_cut_short_taken_as_failure", 1)
		if err := cl.Restart(joiner.Idx); err != nil {
			rec.Inconclusive(fmt.Sprintf("%s: second start of node %d: %v", r.desc, joiner.Id, err))
			return
		}
	} else {
		r.note(fmt.Sprintf("join through node %d acknowledged although the handshake broke (request lost / answer cut after %d entries)", asked.Id, cut))
		rec.Count("join_answers_cut_short_taken_as_acknowledgement", 1)
	}
	want := map[uint64]string{}
	for _, n := range cl.Nodes {
		want[n.Id] = n.Addr
	}
	time.Sleep(50 * time.Millisecond)
	if !r.converge(cl.Nodes, want, "after-a-join-answer-was-cut-short", bookSym) {
		return
	}
	rec.Count("join_answers_cut_short", 1)
	rec.Case(mon.Digest(r.desc), true)
}
