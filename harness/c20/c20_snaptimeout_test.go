// C20, a lost snapshot of the membership log: the leader's log has been compacted, a node joins (its join is
// acknowledged) and has to be brought up to date by a snapshot message - and that one message is lost the slow way: the
// receiver holds it until the sender's deadline has passed. Whatever the sender makes of that, a node that joins
// afterwards must end up in every member's list, the first joiner's included.
package c20

import (
	"context"
	"fmt"
	"os"
	"sync"
	"testing"
	"time"

	"github.com/coreos/etcd/raft/raftpb"
	pb "github.com/marekgalovic/anndb/protobuf"
	uuid "github.com/satori/go.uuid"
	"verif/harness/mon"
	"verif/harness/sim"
)

func TestC20SnapshotSendTimesOut(t *testing.T) {
	rec := shared
	if os.Getenv("VERIF_CASE") != "" {
		return
	}
	n := rec.N(2, 12)
	for c := 0; c < n; c++ {
		if rec.Mine(c + 5) {
			snapshotSendTimesOut(rec, c)
		}
	}
}

func snapshotSendTimesOut(rec *mon.Recorder, c int) {
	r := &run{rec: rec, c: c, desc: fmt.Sprintf("snapshot-send-times-out-once case=%d nodes=4", c)}
	rec.Current(r.desc)
	r.cl = sim.New(sim.Options{Nodes: 4, Dir: os.Getenv("VERIF_SCRATCH") + fmt.Sprintf("/c20st-%d", c), TickEvery: 5 * time.Millisecond, Seed: rec.Seed() + int64(c), NoJoinBarrier: true})
	defer r.cl.Close()
	if !r.startMembers(2) {
		return
	}
	cl := r.cl
	// some membership-and-catalogue history, then both members compact their logs
	for i := 0; i < 3; i++ {
		cl.CreateDataset(i%2, 2, 1, 1, pb.Space_Euclidean)
	}
	for _, n := range cl.Nodes[:2] {
		cl.TriggerSnapshot(n, uuid.Nil, 0)
	}
	time.Sleep(150 * time.Millisecond)
	r.note("two members; membership log compacted on both")
	// node 3: the first snapshot message from each sender (per term) is held until the sender gives up, and lost
	var mu sync.Mutex
	held := map[string]bool{}
	lost, delivered := 0, 0
	joiner := cl.Nodes[2]
	joiner.SetFault("Receive", sim.RPCFault{Decide: func(ctx context.Context, req interface{}) error {
		rm, ok := req.(*pb.RaftMessage)
		if !ok || !uuid.Equal(uuid.FromBytesOrNil(rm.GetGroupId()), uuid.Nil) {
			return nil
		}
		var m raftpb.Message
		if m.Unmarshal(rm.GetMessage()) != nil || m.Type != raftpb.MsgSnap {
			return nil
		}
		key := fmt.Sprintf("%d/%d", m.From, m.Term)
		mu.Lock()
		first := !held[key]
		held[key] = true
		if first {
			lost++
		} else {
			delivered++
		}
		mu.Unlock()
		if !first {
			return nil
		}
		<-ctx.Done() // the sender's deadline
		return ctx.Err()
	}})
	if err := cl.StartNode(2); err != nil {
		rec.Inconclusive(fmt.Sprintf("%s: join of node 3: %v", r.desc, err))
		return
	}
	r.note("node 3 joined (acknowledged)")
	time.Sleep(800 * time.Millisecond) // the held snapshot message has timed out at its sender
	// node 3 is given a few seconds to be brought up to date by a second snapshot message (until then it disturbs the
	// others with elections it cannot win); whether it has been or not, node 4 joins next
	cl.WaitFor(5*time.Second, func() bool {
		var lead, mine uint64
		cl.Guard(2*time.Second, func() {
			lead = cl.Nodes[0].In.ZeroGroup.VerifStatus().Commit
			mine = joiner.In.ZeroGroup.VerifStatus().Applied
		})
		return lead > 0 && mine >= lead
	})
	var jerr error
	for attempt := 0; attempt < 3; attempt++ {
		if jerr = cl.StartNode(3); jerr == nil {
			break
		}
		// a join that was not applied in time (a loaded machine): the process would exit and be started again
		cl.Crash(3)
		cl.Teardown(3)
		time.Sleep(300 * time.Millisecond)
	}
	if jerr != nil {
		rec.Inconclusive(fmt.Sprintf("%s: join of node 4: %v", r.desc, jerr))
		return
	}
	r.note("node 4 joined (acknowledged)")
	want := map[uint64]string{}
	for _, n := range cl.Nodes {
		want[n.Id] = n.Addr
	}
	ok := r.converge(cl.Nodes, want, "after-a-snapshot-message-was-lost-by-timeout", bookSym)
	mu.Lock()
	rec.Count("membership_snapshot_messages_lost_by_timeout", int64(lost))
	rec.Count("membership_snapshot_messages_delivered_afterwards", int64(delivered))
	mu.Unlock()
	if !ok {
		return
	}
	if lost == 0 {
		rec.Count("snapshot_timeout_cases_without_a_snapshot_message", 1)
	}
	rec.Case(mon.Digest(r.desc), lost > 0)
}
