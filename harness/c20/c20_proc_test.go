// C20 on real processes: a member of a four-node cluster of real cmd/anndb servers is killed with SIGKILL in the
// middle of the membership log's ready-loop (before / after the log write, after apply, around snapshot+compaction)
// while a node is being removed or is joining, and restarted on its data directory. Once a catalogue marker created
// afterwards is listed by every member, every member's address book (read through the state dump) must be the
// acknowledged membership with the announced addresses.
package c20

import (
	"context"
	"fmt"
	"os"
	"path/filepath"
	"sort"
	"strconv"
	"sync"
	"syscall"
	"testing"
	"time"

	pb "github.com/marekgalovic/anndb/protobuf"
	uuid "github.com/satori/go.uuid"
	"verif/harness/mon"
	"verif/harness/proc"
)

var zeroKillPoints = []string{"beforeSave", "beforeSave", "afterSave", "afterSave", "applied", "applied", "beforeSendFollower", "afterAdvance", "snapshot.trigger", "snapshot.done"}

func TestC20Proc(t *testing.T) {
	rec := shared
	if os.Getenv("VERIF_CASE") != "" {
		return
	}
	if proc.Bin() == "" {
		rec.Inconclusive("real-process part skipped: VERIF_ANNDB_BIN not set")
		return
	}
	n := rec.N(16, 200)
	var wg sync.WaitGroup
	sem := make(chan struct{}, 2)
	for c := 0; c < n; c++ {
		if !rec.Mine(c + 3) {
			continue
		}
		wg.Add(1)
		sem <- struct{}{}
		go func(c int) {
			defer wg.Done()
			defer func() { <-sem }()
			procCase(rec, c)
		}(c)
	}
	wg.Wait()
}

func fmtNodes(m map[string]string) string {
	var ks []string
	for k := range m {
		ks = append(ks, k)
	}
	sort.Strings(ks)
	s := ""
	for _, k := range ks {
		s += fmt.Sprintf("%s=%q ", k, m[k])
	}
	return s
}

func procCase(rec *mon.Recorder, c int) {
	rng := rec.Rand("c20-proc", c)
	change := []string{"removal", "join"}[c%2]
	point := zeroKillPoints[rng.Intn(len(zeroKillPoints))]
	snapEvery := 0
	if rng.Intn(2) == 0 || point == "snapshot.trigger" || point == "snapshot.done" {
		snapEvery = 1 + rng.Intn(3)
	}
	k := 1 + rng.Intn(4)
	victim := 1 + rng.Intn(2) // node 2 or 3 (node 1 is the join contact, node 4 is the node that leaves / joins)
	if rng.Intn(4) == 0 {
		victim = 0
	}
	rejoin := victim > 0 && rng.Intn(3) != 0
	pause := c%4 < 2 || point == "beforeSave"
	desc := fmt.Sprintf("proc-membership case=%d change=%s victim=%d point=zero:%s@%d snapshot-every=%d rejoin=%v pause-before-kill=%v", c, change, victim+1, point, k, snapEvery, rejoin, pause)
	rec.Current(desc)
	var steps []string
	var srv []*proc.Server
	violation := func(sym, detail string) {
		logs := map[string][]string{}
		for _, s := range srv {
			b, _ := os.ReadFile(s.LogPath())
			lines := []string{}
			cur := ""
			for _, ch := range string(b) {
				if ch == '\n' {
					if len(cur) > 300 {
						cur = cur[:300]
					}
					lines = append(lines, cur)
					cur = ""
				} else {
					cur += string(ch)
				}
			}
			if len(lines) > 50 {
				lines = lines[len(lines)-50:]
			}
			logs[fmt.Sprint(s.Id)] = lines
		}
		rec.Violation("proc:"+sym+":"+change+":zero/"+point, desc+": "+detail, map[string]interface{}{"desc": desc, "seed": rec.Seed(), "steps": steps, "server_log_tails": logs})
	}
	dir := filepath.Join(os.Getenv("VERIF_SCRATCH"), fmt.Sprintf("c20proc-%d", c))
	defer os.RemoveAll(dir)
	defer func() {
		for _, s := range srv {
			s.Kill()
		}
	}()
	waitFor := func(d time.Duration, cond func() bool) bool {
		deadline := time.Now().Add(d)
		for time.Now().Before(deadline) {
			if cond() {
				return true
			}
			time.Sleep(100 * time.Millisecond)
		}
		return cond()
	}
	books := func(nodes []*proc.Server) map[uint64]map[string]string {
		out := map[uint64]map[string]string{}
		for _, s := range nodes {
			if d, err := s.Dump(5 * time.Second); err == nil {
				out[s.Id] = d.Nodes
			}
		}
		return out
	}
	agree := func(nodes []*proc.Server, want map[string]string) (bool, string) {
		b := books(nodes)
		for _, s := range nodes {
			got, ok := b[s.Id]
			if !ok {
				return false, fmt.Sprintf("node %d: no dump", s.Id)
			}
			if len(got) != len(want) {
				return false, fmt.Sprintf("node %d lists {%s}, acknowledged {%s}", s.Id, fmtNodes(got), fmtNodes(want))
			}
			for id, addr := range want {
				if got[id] != addr {
					return false, fmt.Sprintf("node %d lists {%s}, acknowledged {%s}", s.Id, fmtNodes(got), fmtNodes(want))
				}
			}
		}
		return true, ""
	}
	start := func(i int, armed bool) (*proc.Server, error) {
		join := ""
		if i > 0 {
			join = srv[0].Addr()
		}
		s := proc.New(uint64(i+1), filepath.Join(dir, fmt.Sprintf("n%d", i+1)), join)
		if snapEvery > 0 {
			s.Env = append(s.Env, "VERIF_SNAPSHOT_EVERY="+strconv.Itoa(snapEvery))
		}
		if armed {
			s.Env = append(s.Env, fmt.Sprintf("VERIF_KILL_AT=zero:%s@%d", point, k), "VERIF_KILL_ARM=signal")
			if pause {
				s.Env = append(s.Env, "VERIF_KILL_DELAY=10ms")
			}
		}
		srv = append(srv, s)
		if err := s.Start(); err != nil {
			return s, err
		}
		return s, s.WaitServing(60 * time.Second)
	}
	initial := 4
	if change == "join" {
		initial = 3
	}
	want := map[string]string{}
	for i := 0; i < initial; i++ {
		s, err := start(i, i == victim)
		if err != nil {
			rec.Inconclusive(desc + ": start: " + err.Error())
			return
		}
		want[fmt.Sprint(s.Id)] = ":" + s.Port
		members := append([]*proc.Server(nil), srv...)
		w := map[string]string{}
		for k, v := range want {
			w[k] = v
		}
		if !waitFor(60*time.Second, func() bool { ok, _ := agree(members, w); return ok }) {
			_, why := agree(members, w)
			rec.Inconclusive(fmt.Sprintf("%s: the first %d nodes did not come to list each other: %s", desc, i+1, why))
			return
		}
	}
	v := srv[victim]
	syscall.Kill(v.Pid(), syscall.SIGUSR2) // count the kill point's hits from here
	time.Sleep(50 * time.Millisecond)
	outcomeOpen := false
	switch change {
	case "removal":
		ctx, cancel := context.WithTimeout(context.Background(), 15*time.Second)
		_, err := pb.NewNodesManagerClient(srv[0].Conn()).RemoveNode(ctx, &pb.Node{Id: 4})
		cancel()
		if err == nil {
			delete(want, "4")
			steps = append(steps, "removal of node 4 acknowledged by node 1")
		} else {
			outcomeOpen = true
			steps = append(steps, "removal of node 4 -> OPEN ("+err.Error()+")")
		}
		srv[3].Kill()
	case "join":
		s, err := start(3, false)
		if err != nil {
			outcomeOpen = true
			steps = append(steps, "join of node 4 -> OPEN ("+err.Error()+")")
		} else {
			// the joiner serves before its handshake has returned: the join counts as acknowledged once the joiner
			// itself lists the members (the handshake's answer) and stays up
			if waitFor(30*time.Second, func() bool {
				d, err := s.Dump(3 * time.Second)
				return err == nil && len(d.Nodes) >= 4
			}) && s.Alive() {
				want["4"] = ":" + s.Port
				steps = append(steps, "join of node 4 acknowledged")
			} else {
				outcomeOpen = true
				steps = append(steps, "join of node 4 -> OPEN")
			}
		}
	}
	if v.Alive() {
		if v.WaitExit(500 * time.Millisecond) {
			rec.Count("proc_kill_points_hit", 1)
			rec.Seen("proc_kill_points_reached", "zero/"+point)
		} else {
			v.Kill()
			rec.Count("proc_killed_at_rest", 1)
		}
	} else {
		rec.Count("proc_kill_points_hit", 1)
		rec.Seen("proc_kill_points_reached", "zero/"+point)
	}
	rec.Count("proc_crashes", 1)
	v.Env = nil
	if snapEvery > 0 {
		v.Env = append(v.Env, "VERIF_SNAPSHOT_EVERY="+strconv.Itoa(snapEvery))
	}
	if victim > 0 && !rejoin {
		v.Join = "false"
	}
	if err := v.Start(); err != nil {
		rec.Inconclusive(desc + ": restart: " + err.Error())
		return
	}
	if err := v.WaitServing(60 * time.Second); err != nil {
		if !v.Alive() {
			violation("dies-on-restart", "the restarted member exited: "+v.ExitReason())
			return
		}
		rec.Inconclusive(desc + ": restarted member not serving: " + err.Error())
		return
	}
	steps = append(steps, fmt.Sprintf("node %d killed and restarted", v.Id))
	var live []*proc.Server
	for _, s := range srv {
		if s.Alive() && (want[fmt.Sprint(s.Id)] != "" || (outcomeOpen && s.Id == 4)) {
			live = append(live, s)
		}
	}
	// logical quiescence: a catalogue marker created now is listed by every member
	var marker uuid.UUID
	for attempt := 0; attempt < 10 && uuid.Equal(marker, uuid.Nil); attempt++ {
		if m, err := srv[0].Create(uint32(50+attempt), 1, 1, pb.Space_Euclidean, 8*time.Second); err == nil {
			marker = uuid.FromBytesOrNil(m.Id)
		} else {
			time.Sleep(500 * time.Millisecond)
		}
	}
	if uuid.Equal(marker, uuid.Nil) {
		for _, s := range live {
			if !s.Alive() {
				violation("dies-after-restart", fmt.Sprintf("node %d exited: %s", s.Id, s.ExitReason()))
				return
			}
		}
		rec.Inconclusive(desc + ": no catalogue entry could be created after the restart")
		return
	}
	members := live
	if outcomeOpen {
		// the change may or may not have happened: compare the three founding members only, and with each other
		members = nil
		for _, s := range live {
			if s.Id != 4 {
				members = append(members, s)
			}
		}
	}
	if !waitFor(60*time.Second, func() bool {
		for _, s := range members {
			l, err := s.List(3 * time.Second)
			if err != nil {
				return false
			}
			found := false
			for _, d := range l {
				if uuid.Equal(uuid.FromBytesOrNil(d.Id), marker) {
					found = true
				}
			}
			if !found {
				return false
			}
		}
		return true
	}) {
		for _, s := range members {
			if !s.Alive() {
				violation("dies-after-restart", fmt.Sprintf("node %d exited: %s", s.Id, s.ExitReason()))
				return
			}
		}
		rec.Inconclusive(desc + ": the marker did not become visible on every member within a minute")
		return
	}
	if outcomeOpen {
		b := books(members)
		var first map[string]string
		for _, s := range members {
			if first == nil {
				first = b[s.Id]
			} else if fmtNodes(first) != fmtNodes(b[s.Id]) {
				// the members may still be applying the change whose outcome is unknown: give them the usual window
				if !waitFor(30*time.Second, func() bool {
					bb := books(members)
					for _, x := range members {
						if fmtNodes(bb[x.Id]) != fmtNodes(bb[members[0].Id]) {
							return false
						}
					}
					return true
				}) {
					violation("books-differ-between-members", fmt.Sprintf("node %d lists {%s}, node %d lists {%s}", members[0].Id, fmtNodes(first), s.Id, fmtNodes(b[s.Id])))
					return
				}
			}
		}
		rec.Count("proc_books_compared_between_members", int64(len(members)))
	} else {
		if ok, why := agree(members, want); !ok {
			if !waitFor(30*time.Second, func() bool { ok, _ := agree(members, want); return ok }) {
				_, why = agree(members, want)
				sym := "book-differs-from-acknowledged-membership"
				violation(sym, why)
				return
			}
		}
		rec.Count("proc_books_checked", int64(len(members)))
		rec.Count("books_checked", int64(len(members)))
	}
	rec.Case(mon.Digest(desc), true)
	if rec.WantSample() {
		rec.Sample(map[string]interface{}{"desc": desc, "steps": steps})
	}
}
