// C20 — every member's view of cluster membership converges and survives restart.
package c20

import (
	"context"
	"fmt"
	"os"
	"sort"
	"sync"
	"testing"
	"time"

	etcdRaft "github.com/coreos/etcd/raft"
	"github.com/coreos/etcd/raft/raftpb"
	pb "github.com/marekgalovic/anndb/protobuf"
	uuid "github.com/satori/go.uuid"
	"verif/harness/mon"
	"verif/harness/sim"
)

// one recorder for the package: TestC20 (in-process clusters) and TestC20Proc (real server processes)
var shared *mon.Recorder

func TestMain(m *testing.M) {
	shared = mon.Open("C20")
	code := m.Run()
	shared.Close()
	os.Exit(code)
}

func TestC20(t *testing.T) {
	rec := shared
	n := rec.N(16, 200)
	if only := os.Getenv("VERIF_CASE"); only != "" {
		var c int
		fmt.Sscan(only, &c)
		switch os.Getenv("VERIF_FAMILY") {
		case "lagging":
			rejoinThroughLaggingMember(rec, c)
		case "rejoin":
			rejoinThenLaterJoin(rec, c)
		case "down":
			removalWhileMemberDown(rec, c)
		case "behind":
			restartAndRejoinThroughMemberBehindOnAJoin(rec, c)
		default:
			scenario(rec, c)
		}
		return
	}
	for c := 0; c < n; c++ {
		if rec.Mine(c) {
			scenario(rec, c)
		}
	}
	m := rec.N(3, 24)
	for c := 0; c < m; c++ {
		if rec.Mine(c + 2) {
			rejoinThroughLaggingMember(rec, c)
		}
		if rec.Mine(c + 4) {
			rejoinThenLaterJoin(rec, c)
		}
		if rec.Mine(c + 6) {
			removalWhileMemberDown(rec, c)
		}
		if rec.Mine(c + 1) {
			restartAndRejoinThroughMemberBehindOnAJoin(rec, c)
		}
	}
}

// common scaffolding of the two scenarios below
type run struct {
	rec   *mon.Recorder
	cl    *sim.Cluster
	desc  string
	c     int
	steps []string
}

func (r *run) note(s string) { r.steps = append(r.steps, s) }
func (r *run) replay() map[string]interface{} {
	return map[string]interface{}{"case": r.c, "seed": r.rec.Seed(), "desc": r.desc, "steps": r.steps}
}

// startMembers joins nodes idx... one after the other and waits until the first k list each other
func (r *run) startMembers(upto int) bool {
	for i := 0; i < upto; i++ {
		if err := r.cl.StartNode(i); err != nil {
			r.rec.Inconclusive(fmt.Sprintf("%s: node %d: %v", r.desc, i+1, err))
			return false
		}
		if i == 0 && r.cl.WaitFor(20*time.Second, func() bool { return r.cl.Nodes[0].ZeroLeader() != 0 }) != nil {
			r.rec.Inconclusive(r.desc + ": node 1 never led the zero group")
			return false
		}
		if r.cl.WaitMembership(i+1, 20*time.Second) != nil {
			r.rec.Inconclusive(fmt.Sprintf("%s: the first %d nodes do not list each other", r.desc, i+1))
			return false
		}
	}
	// a joiner's book is filled by the join reply; wait until every member has
	// also received and applied the membership log itself
	if r.cl.WaitFor(20*time.Second, func() bool {
		var commit uint64
		for _, n := range r.cl.Nodes[:upto] {
			if st := n.In.ZeroGroup.VerifStatus(); st.Commit > commit {
				commit = st.Commit
			}
		}
		for _, n := range r.cl.Nodes[:upto] {
			if n.In.ZeroGroup.VerifStatus().Applied < commit {
				return false
			}
		}
		return commit > 0
	}) != nil {
		r.rec.Inconclusive(fmt.Sprintf("%s: the first %d nodes did not all apply the membership log", r.desc, upto))
		return false
	}
	r.note(fmt.Sprintf("%d nodes joined and caught up", upto))
	return true
}

// converge waits until every node of `live` lists exactly `want`; on a timeout it
// separates stuck from slow: a member whose zero-group applied index does not
// move during a second window while it is behind the others is stuck.
func (r *run) converge(live []*sim.Node, want map[uint64]string, phase string, sym func(n *sim.Node, bad string) string) bool {
	check := func() (*sim.Node, string) {
		for _, n := range live {
			var b map[uint64]string
			if !r.cl.Guard(5*time.Second, func() { b = book(n) }) {
				return n, "address book not readable (lock never released)"
			}
			for id, addr := range want {
				got, ok := b[id]
				if !ok {
					return n, fmt.Sprintf("member %d is not listed", id)
				}
				if got != addr {
					return n, fmt.Sprintf("member %d listed with address %q, announced %q", id, got, addr)
				}
			}
			for id := range b {
				if _, ok := want[id]; !ok {
					return n, fmt.Sprintf("node %d is listed although it is not a member", id)
				}
			}
		}
		return nil, ""
	}
	// Every membership change made so far has been acknowledged, hence committed: a member that has applied the
	// log up to the highest commit index any live member reports now has applied all of them.
	var target uint64
	for _, n := range live {
		n := n
		r.cl.Guard(3*time.Second, func() {
			if c := n.In.ZeroGroup.VerifStatus().Commit; c > target {
				target = c
			}
		})
	}
	if r.cl.WaitFor(30*time.Second, func() bool { n, _ := check(); return n == nil }) == nil {
		r.rec.Count("books_checked", int64(len(live)))
		return true
	}
	// second window: is the lagging member still moving?
	n, bad := check()
	if n == nil {
		r.rec.Count("books_checked", int64(len(live)))
		return true
	}
	applied := func() uint64 {
		var a uint64
		r.cl.Guard(3*time.Second, func() { a = n.In.ZeroGroup.VerifStatus().Applied })
		return a
	}
	a0 := applied()
	if r.cl.WaitFor(20*time.Second, func() bool { m, _ := check(); return m == nil }) == nil {
		r.rec.Count("books_checked", int64(len(live)))
		return true
	}
	n2, bad2 := check()
	if n2 == nil {
		return true
	}
	if a2 := applied(); n2 == n && target > 0 && a2 >= target {
		// slow or not: it has applied every acknowledged change and still lists something else
		rp := r.replay()
		rp["node"], rp["expected"], rp["diag"] = n.Id, fmtBook(want), r.cl.Diag()
		r.rec.Violation(sym(n, bad2)+":"+phase, fmt.Sprintf("%s: node %d %s: %s although it has applied the membership log up to index %d (every change was acknowledged, hence committed, by index %d)%s", r.desc, n.Id, phase, bad2, a2, target, r.cl.Diag()), rp)
		return false
	}
	if n2 != n || applied() != a0 {
		r.rec.Inconclusive(fmt.Sprintf("%s: %s: views still moving after 50 s (node %d: %s)", r.desc, phase, n2.Id, bad2))
		return false
	}
	rp := r.replay()
	rp["node"], rp["expected"], rp["diag"] = n.Id, fmtBook(want), r.cl.Diag()
	r.rec.Violation(sym(n, bad)+":"+phase, fmt.Sprintf("%s: node %d %s: %s; its membership log has not moved for 20 s (applied index %d)%s", r.desc, n.Id, phase, bad, a0, r.cl.Diag()), rp)
	return false
}

func bookSym(n *sim.Node, bad string) string {
	switch {
	case containsStr(bad, "not listed"):
		return "book:member-missing"
	case containsStr(bad, "not a member"):
		return "book:removed-node-listed"
	case containsStr(bad, "address"):
		return "book:wrong-address"
	}
	return "book:wrong"
}

// A node is removed, shut down, and later joins again under its old id and
// address; afterwards a further node joins. Every member - the re-joined one
// included, which can only learn of the later join through the membership log
// - must end up listing all of them.
func rejoinThenLaterJoin(rec *mon.Recorder, c int) {
	r := &run{rec: rec, c: c, desc: fmt.Sprintf("rejoin-then-later-join case=%d nodes=4", c)}
	rec.Current(r.desc)
	rng := rec.Rand("c20-rejoin", c)
	r.cl = sim.New(sim.Options{Nodes: 4, Dir: os.Getenv("VERIF_SCRATCH") + fmt.Sprintf("/c20j-%d", c), TickEvery: 5 * time.Millisecond, Seed: rec.Seed() + int64(c), NoJoinBarrier: true})
	defer r.cl.Close()
	if !r.startMembers(3) {
		return
	}
	cl := r.cl
	victim := cl.Nodes[1+rng.Intn(2)]
	via := cl.Nodes[0]
	// datasets replicated on all three members: the victim's removal is also
	// written into their partition groups' own membership logs
	for i := 0; i < 1+rng.Intn(2); i++ {
		if _, _, err := cl.CreateDataset(rng.Intn(3), 2, uint32(1+rng.Intn(2)), 3, pb.Space_Euclidean); err != nil {
			rec.Inconclusive(r.desc + ": create dataset: " + err.Error())
			return
		}
	}
	r.note("datasets with 3 replicas created")
	var err error
	if !cl.Guard(20*time.Second, func() { err = via.In.NodesManager.RemoveNode(victim.Id) }) || err != nil {
		rec.Inconclusive(fmt.Sprintf("%s: removal of node %d not acknowledged: %v", r.desc, victim.Id, err))
		return
	}
	r.note(fmt.Sprintf("removal of %d acknowledged", victim.Id))
	cl.Crash(victim.Idx)
	cl.Teardown(victim.Idx)
	want := map[uint64]string{}
	var live []*sim.Node
	for _, n := range cl.Nodes[:3] {
		if n != victim {
			want[n.Id] = n.Addr
			live = append(live, n)
		}
	}
	if !r.converge(live, want, "after-removal", bookSym) {
		return
	}
	if c%2 == 1 {
		// the remaining members also restart in between (their transport state is rebuilt)
		other := live[len(live)-1]
		if err := cl.Restart(other.Idx); err != nil {
			rec.Inconclusive(fmt.Sprintf("%s: restart of node %d: %v", r.desc, other.Id, err))
			return
		}
		r.note(fmt.Sprintf("restart of %d", other.Id))
	}
	if err := cl.StartNode(victim.Idx); err != nil {
		rec.Inconclusive(fmt.Sprintf("%s: re-join of node %d: %v", r.desc, victim.Id, err))
		return
	}
	r.note(fmt.Sprintf("re-join of %d acknowledged", victim.Id))
	want[victim.Id] = victim.Addr
	live = append(live, victim)
	if err := cl.StartNode(3); err != nil {
		rec.Inconclusive(fmt.Sprintf("%s: join of node 4: %v", r.desc, err))
		return
	}
	r.note("join of 4 acknowledged")
	want[4] = cl.Nodes[3].Addr
	live = append(live, cl.Nodes[3])
	rec.Count("rejoin_then_later_join_histories", 1)
	// the members that never left: first as they are, then after one of them
	// restarted and replayed all its logs (zero group and partition groups)
	var stayed []*sim.Node
	for _, n := range live {
		if n != victim {
			stayed = append(stayed, n)
		}
	}
	if !r.converge(stayed, want, "on-the-members-that-stayed-after-rejoin-and-a-later-join", bookSym) {
		return
	}
	time.Sleep(300 * time.Millisecond) // let the partition groups apply their own membership changes
	rs := stayed[rng.Intn(2)]
	if err := cl.Restart(rs.Idx); err != nil {
		rec.Inconclusive(fmt.Sprintf("%s: restart of node %d: %v", r.desc, rs.Id, err))
		return
	}
	r.note(fmt.Sprintf("restart of %d (replays the zero log and its partition logs)", rs.Id))
	if cl.WaitFor(20*time.Second, func() bool {
		for _, g := range rs.In.ZeroGroup.VerifTransport().VerifGroups() {
			st := g.VerifStatus()
			if st.Applied < st.Commit {
				return false
			}
		}
		return true
	}) != nil {
		rec.Inconclusive(fmt.Sprintf("%s: restarted node %d did not re-apply its logs", r.desc, rs.Id))
		return
	}
	if !r.converge(stayed, want, "after-restart-of-a-member-that-replays-partition-logs-holding-the-old-removal", bookSym) {
		return
	}
	rec.Seen("phases", "after-restart-of-a-member-that-replays-partition-logs-holding-the-old-removal")
	if !r.converge(live, want, "after-rejoin-and-a-later-join", func(n *sim.Node, bad string) string {
		if n == victim {
			return "book:rejoined-member-does-not-follow-the-membership-log"
		}
		return bookSym(n, bad)
	}) {
		return
	}
	rec.Seen("phases", "after-rejoin-and-a-later-join")
	rec.Case(mon.Digest(r.desc, victim.Id), true)
}

// A member is down while another node is removed and the membership log is
// compacted; when it returns it is caught up by the leader's snapshot and must
// stop listing the removed node.
func removalWhileMemberDown(rec *mon.Recorder, c int) {
	r := &run{rec: rec, c: c, desc: fmt.Sprintf("removal-while-member-down case=%d nodes=4", c)}
	rec.Current(r.desc)
	rng := rec.Rand("c20-down", c)
	r.cl = sim.New(sim.Options{Nodes: 5, Dir: os.Getenv("VERIF_SCRATCH") + fmt.Sprintf("/c20d-%d", c), TickEvery: 5 * time.Millisecond, Seed: rec.Seed() + int64(c), NoJoinBarrier: true})
	defer r.cl.Close()
	if !r.startMembers(4) {
		return
	}
	cl := r.cl
	perm := rng.Perm(3)
	lag, gone := cl.Nodes[1+perm[0]], cl.Nodes[1+perm[1]]
	cl.Crash(lag.Idx)
	cl.Teardown(lag.Idx)
	r.note(fmt.Sprintf("node %d down", lag.Id))
	var err error
	if !cl.Guard(20*time.Second, func() { err = cl.Nodes[0].In.NodesManager.RemoveNode(gone.Id) }) || err != nil {
		rec.Inconclusive(fmt.Sprintf("%s: removal of node %d not acknowledged: %v", r.desc, gone.Id, err))
		return
	}
	r.note(fmt.Sprintf("removal of %d acknowledged while %d is down", gone.Id, lag.Id))
	cl.Crash(gone.Idx)
	cl.Teardown(gone.Idx)
	want := map[uint64]string{}
	var up []*sim.Node
	for _, n := range cl.Nodes[:4] {
		if n != gone {
			want[n.Id] = n.Addr
			if n != lag {
				up = append(up, n)
			}
		}
	}
	if c%2 == 1 {
		// another node joins while the member is still down: as many have joined as have left
		if err := cl.StartNode(4); err != nil {
			rec.Inconclusive(fmt.Sprintf("%s: join of node 5: %v", r.desc, err))
			return
		}
		want[5] = cl.Nodes[4].Addr
		up = append(up, cl.Nodes[4])
		r.note("node 5 joins while the member is down")
		lag.NoRejoin = true // it comes back with -join false: its own log and the leader's snapshot are all it has
		// A member that comes back with -join false can only answer nodes it has an address for. Which node leads the
		// membership group when it returns is left to chance in one case in four (see the finding on a leader that
		// joined while the member was down); otherwise node 1, which every member knows, is made to lead.
		if c%4 != 3 {
			cl.WaitFor(15*time.Second, func() bool {
				if cl.Nodes[0].ZeroLeader() == 1 {
					return true
				}
				cl.Guard(2*time.Second, func() { cl.Nodes[0].In.ZeroGroup.VerifCampaign() })
				time.Sleep(100 * time.Millisecond)
				return cl.Nodes[0].ZeroLeader() == 1
			})
		}
	}
	if !r.converge(up, want, "after-removal-with-a-member-down", bookSym) {
		return
	}
	compacted := c%3 != 2
	if compacted {
		for _, n := range up {
			cl.TriggerSnapshot(n, uuid.Nil, 0)
		}
		time.Sleep(150 * time.Millisecond)
		r.note("membership log compacted on the members that are up")
	}
	if err := cl.StartNode(lag.Idx); err != nil {
		rec.Inconclusive(fmt.Sprintf("%s: node %d did not come back: %v", r.desc, lag.Id, err))
		return
	}
	r.note(fmt.Sprintf("node %d back", lag.Id))
	rec.Count("removal_while_member_down_histories", 1)
	phase := "after-catch-up-by-log-of-a-member-that-was-down-during-the-removal"
	if compacted {
		phase = "after-catch-up-by-snapshot-of-a-member-that-was-down-during-the-removal"
	}
	sym := bookSym
	if lag.NoRejoin {
		sym = func(n *sim.Node, bad string) string {
			// a returning member that has no address for the node that now leads the membership group cannot answer
			// it, so nothing of the log ever reaches it
			if n == lag {
				lead := up[0].ZeroLeader()
				if _, known := book(lag)[lead]; lead != 0 && !known {
					return "book:member-back-with-join-false-cannot-follow-a-leader-that-joined-while-it-was-down"
				}
			}
			return bookSym(n, bad)
		}
	}
	if !r.converge(append(up, lag), want, phase, sym) {
		return
	}
	rec.Seen("phases", phase)
	rec.Case(mon.Digest(r.desc, lag.Id, gone.Id, compacted), true)
}

// A member restarts and joins again - as every restart with -join does - through a member that is behind on a
// join the restarting member has already applied: the answer it gets lacks the newest node, and it must still list it
// once everybody has caught up.
func restartAndRejoinThroughMemberBehindOnAJoin(rec *mon.Recorder, c int) {
	r := &run{rec: rec, c: c, desc: fmt.Sprintf("rejoin-through-member-behind-on-a-join case=%d nodes=4", c)}
	rec.Current(r.desc)
	r.cl = sim.New(sim.Options{Nodes: 4, Dir: os.Getenv("VERIF_SCRATCH") + fmt.Sprintf("/c20b-%d", c), TickEvery: 5 * time.Millisecond, Seed: rec.Seed() + int64(c), NoJoinBarrier: true})
	defer r.cl.Close()
	cl := r.cl
	var gateMu sync.Mutex
	armed, engaged := false, false
	release := make(chan struct{})
	released := false
	open := func() {
		gateMu.Lock()
		if !released {
			released = true
			close(release)
		}
		gateMu.Unlock()
	}
	defer open()
	cl.OnEvent = func(n *sim.Node, group uuid.UUID, point string, args ...interface{}) {
		if n.Idx != 1 || !uuid.Equal(group, uuid.Nil) || point != "ready" || len(args) == 0 {
			return
		}
		rd, ok := args[0].(*etcdRaft.Ready)
		if !ok {
			return
		}
		gateMu.Lock()
		hold := false
		if armed && !engaged {
			for _, e := range rd.CommittedEntries {
				if e.Type == raftpb.EntryConfChange {
					var cc raftpb.ConfChange
					if cc.Unmarshal(e.Data) == nil && cc.Type == raftpb.ConfChangeAddNode && cc.NodeID == 4 {
						hold, engaged = true, true
					}
				}
			}
		}
		gateMu.Unlock()
		if hold {
			select { // node 2 learns of node 4's committed join but does not get to apply it yet
			case <-release:
			case <-time.After(40 * time.Second):
			}
		}
	}
	if !r.startMembers(3) {
		return
	}
	gateMu.Lock()
	armed = true
	gateMu.Unlock()
	if err := cl.StartNode(3); err != nil {
		rec.Inconclusive(fmt.Sprintf("%s: join of node 4: %v", r.desc, err))
		return
	}
	r.note("join of node 4 acknowledged while node 2 holds the committed join unapplied")
	if cl.WaitFor(20*time.Second, func() bool { _, ok := book(cl.Nodes[2])[4]; return ok }) != nil {
		rec.Inconclusive(r.desc + ": node 3 did not apply node 4's join")
		return
	}
	gateMu.Lock()
	held := engaged
	gateMu.Unlock()
	if !held {
		rec.Count("rejoin_behind_on_a_join_gate_not_engaged", 1)
	}
	// node 3 restarts (c even) or repeats its handshake live (c odd), asking node 2
	n3 := cl.Nodes[2]
	if c%2 == 0 {
		n3.JoinVia = cl.Nodes[1].Addr
		if err := cl.Restart(n3.Idx); err != nil {
			rec.Inconclusive(fmt.Sprintf("%s: restart of node 3 through node 2: %v", r.desc, err))
			return
		}
		r.note("node 3 restarted and joined again through node 2")
	} else {
		var jerr error
		if !cl.Guard(30*time.Second, func() { jerr = n3.In.NodesManager.Join(context.Background(), []string{cl.Nodes[1].Addr}) }) || jerr != nil {
			rec.Inconclusive(fmt.Sprintf("%s: repeated join of node 3 through node 2: %v", r.desc, jerr))
			return
		}
		r.note("node 3 repeated its join handshake through node 2")
	}
	open()
	want := map[uint64]string{}
	for _, n := range cl.Nodes {
		want[n.Id] = n.Addr
	}
	rec.Count("rejoin_through_member_behind_on_a_join_histories", 1)
	if !r.converge(cl.Nodes, want, "after-a-member-joined-again-through-a-member-behind-on-a-later-join", bookSym) {
		return
	}
	rec.Case(mon.Digest(r.desc), held)
}

// A removed node re-joins through a member that has not yet applied the
// removal: the join is acknowledged, so once everybody has caught up every
// member must list the node again.
func rejoinThroughLaggingMember(rec *mon.Recorder, c int) {
	desc := fmt.Sprintf("rejoin-through-lagging-member case=%d nodes=3", c)
	rec.Current(desc)
	cl := sim.New(sim.Options{Nodes: 3, Dir: os.Getenv("VERIF_SCRATCH") + fmt.Sprintf("/c20r-%d", c), TickEvery: 5 * time.Millisecond, Seed: rec.Seed() + int64(c)})
	defer cl.Close()
	var gateMu sync.Mutex
	armed, engaged := false, false
	release := make(chan struct{})
	cl.OnEvent = func(n *sim.Node, group uuid.UUID, point string, args ...interface{}) {
		if n.Idx != 1 || !uuid.Equal(group, uuid.Nil) || point != "ready" || len(args) == 0 {
			return
		}
		rd, ok := args[0].(*etcdRaft.Ready)
		if !ok {
			return
		}
		gateMu.Lock()
		hold := false
		if armed && !engaged {
			for _, e := range rd.CommittedEntries {
				if e.Type == raftpb.EntryConfChange {
					var cc raftpb.ConfChange
					if cc.Unmarshal(e.Data) == nil && cc.Type == raftpb.ConfChangeRemoveNode && cc.NodeID == 3 {
						hold, engaged = true, true
					}
				}
			}
		}
		gateMu.Unlock()
		if hold {
			select { // node 2 learns of the committed removal but does not get to apply it yet
			case <-release:
			case <-time.After(20 * time.Second):
			}
		}
	}
	if err := cl.Start(); err != nil {
		rec.Inconclusive(desc + ": cluster start: " + err.Error())
		return
	}
	a, b, cn := cl.Nodes[0], cl.Nodes[1], cl.Nodes[2]
	steps := []string{"3 nodes joined"}
	replay := func() map[string]interface{} {
		return map[string]interface{}{"case": c, "seed": rec.Seed(), "desc": desc, "steps": steps}
	}
	cl.Crash(cn.Idx)
	cl.Teardown(cn.Idx)
	gateMu.Lock()
	armed = true
	gateMu.Unlock()
	var rmErr error
	if !cl.Guard(15*time.Second, func() { rmErr = a.In.NodesManager.RemoveNode(cn.Id) }) || rmErr != nil {
		close(release)
		rec.Inconclusive(fmt.Sprintf("%s: removal of node 3 not acknowledged: %v", desc, rmErr))
		return
	}
	steps = append(steps, "removal of 3 acknowledged by node 1")
	gateMu.Lock()
	isHeld := engaged
	gateMu.Unlock()
	if !isHeld {
		// node 2 may simply not have received the commit yet; give it a moment
		cl.WaitFor(3*time.Second, func() bool { gateMu.Lock(); defer gateMu.Unlock(); return engaged })
	}
	if _, still := book(b)[cn.Id]; !still {
		close(release)
		rec.Inconclusive(desc + ": node 2 had already applied the removal (the interleaving was not produced)")
		return
	}
	steps = append(steps, "node 2 holds the committed removal unapplied")
	cn.JoinVia = b.Addr
	go func() { time.Sleep(400 * time.Millisecond); close(release) }()
	if err := cl.StartNode(cn.Idx); err != nil {
		rec.Inconclusive(fmt.Sprintf("%s: re-join of node 3 through node 2 failed: %v", desc, err))
		return
	}
	steps = append(steps, "re-join of 3 through node 2 acknowledged; node 2 released")
	rec.Count("rejoins_through_lagging_member", 1)
	want := map[uint64]string{1: a.Addr, 2: b.Addr, 3: cn.Addr}
	err := cl.WaitFor(15*time.Second, func() bool {
		for _, n := range cl.Nodes {
			bk := book(n)
			for id, addr := range want {
				if bk[id] != addr {
					return false
				}
			}
		}
		return true
	})
	if err != nil {
		r := replay()
		books := ""
		for _, n := range cl.Nodes {
			books += fmt.Sprintf(" node %d: {%s}", n.Id, fmtBook(book(n)))
		}
		r["books"] = books
		rec.Violation("join:acknowledged-but-absent:rejoin-through-member-behind-on-the-removal", fmt.Sprintf("%s: node 3's re-join was acknowledged by node 2, yet after every member caught up it is not listed by all:%s", desc, books), r)
	} else {
		rec.Count("books_checked", 3)
	}
	rec.Case(mon.Digest(desc), true)
}

func book(n *sim.Node) map[uint64]string {
	if n.In == nil {
		return nil
	}
	return n.In.ClusterConn.Nodes()
}

func fmtBook(b map[uint64]string) string {
	var ids []uint64
	for id := range b {
		ids = append(ids, id)
	}
	sort.Slice(ids, func(i, j int) bool { return ids[i] < ids[j] })
	s := ""
	for _, id := range ids {
		s += fmt.Sprintf("%d=%q ", id, b[id])
	}
	return s
}

func scenario(rec *mon.Recorder, c int) {
	rng := rec.Rand("c20", c)
	nodes := 2 + rng.Intn(4)
	concurrent := c%4 == 3 && nodes >= 3
	doRemove := c%3 == 1 && nodes >= 3
	compact := c%2 == 1
	desc := fmt.Sprintf("case=%d nodes=%d concurrent_joins=%v remove=%v compaction_before_restart=%v", c, nodes, concurrent, doRemove, compact)
	rec.Current(desc)
	cl := sim.New(sim.Options{Nodes: nodes, Dir: os.Getenv("VERIF_SCRATCH") + fmt.Sprintf("/c20-%d", c), TickEvery: 5 * time.Millisecond, Seed: rec.Seed() + int64(c), NoJoinBarrier: true})
	defer cl.Close()
	var steps []string
	replay := func() map[string]interface{} {
		return map[string]interface{}{"case": c, "seed": rec.Seed(), "desc": desc, "steps": steps}
	}
	// --- joins
	if err := cl.StartNode(0); err != nil {
		rec.Inconclusive(desc + ": node 1: " + err.Error())
		return
	}
	if cl.WaitFor(20*time.Second, func() bool { return cl.Nodes[0].ZeroLeader() != 0 }) != nil {
		rec.Inconclusive(desc + ": node 1 never led the zero group")
		return
	}
	joined := map[uint64]string{1: cl.Nodes[0].Addr}
	if concurrent {
		var wg sync.WaitGroup
		errs := make([]error, nodes)
		for i := 1; i < nodes; i++ {
			wg.Add(1)
			go func(i int) { defer wg.Done(); errs[i] = cl.StartNode(i) }(i)
		}
		wg.Wait()
		for i := 1; i < nodes; i++ {
			if errs[i] != nil {
				steps = append(steps, fmt.Sprintf("join %d failed: %v", i+1, errs[i]))
				rec.Inconclusive(desc + ": a concurrent join was refused: " + errs[i].Error())
				return
			}
			joined[uint64(i+1)] = cl.Nodes[i].Addr
			steps = append(steps, fmt.Sprintf("join %d acknowledged (concurrently)", i+1))
		}
	} else {
		for i := 1; i < nodes; i++ {
			if err := cl.StartNode(i); err != nil {
				rec.Inconclusive(fmt.Sprintf("%s: join of node %d failed: %v", desc, i+1, err))
				return
			}
			joined[uint64(i+1)] = cl.Nodes[i].Addr
			steps = append(steps, fmt.Sprintf("join %d acknowledged", i+1))
			// one membership change at a time
			if cl.WaitMembership(i+1, 20*time.Second) != nil {
				r := replay()
				diag := ""
				for _, m := range cl.Nodes[:i+1] {
					if m.In != nil {
						st := m.In.ZeroGroup.VerifStatus()
						diag += fmt.Sprintf(" | node %d: book{%s} zero{term=%d lead=%d commit=%d applied=%d %s progress=%d}", m.Id, fmtBook(book(m)), st.Term, st.Lead, st.Commit, st.Applied, st.RaftState, len(st.Progress))
					}
				}
				r["diag"] = diag
				rec.Violation("join:acknowledged-but-not-applied:sequential", fmt.Sprintf("%s: node %d's join was acknowledged but the first %d nodes do not all list each other%s", desc, i+1, i+1, diag), r)
				return
			}
		}
	}
	ctx := context.Background()
	// marker: a catalogue entry proposed after the last membership change
	marker := func(via *sim.Node, live []*sim.Node, what string) bool {
		var id uuid.UUID
		ok := false
		for attempt := 0; attempt < 30 && !ok; attempt++ {
			var ds interface{ Meta() *pb.Dataset }
			var err error
			done := cl.Guard(4*time.Second, func() {
				d, e := via.DM().Create(ctx, &pb.Dataset{Dimension: 2, PartitionCount: 1, ReplicationFactor: 1})
				if e == nil {
					ds = d
				}
				err = e
			})
			if done && err == nil && ds != nil {
				id = uuid.FromBytesOrNil(ds.Meta().GetId())
				ok = true
				break
			}
			time.Sleep(150 * time.Millisecond)
		}
		if !ok {
			rec.Inconclusive(fmt.Sprintf("%s: marker after %s could not be created through node %d", desc, what, via.Id))
			return false
		}
		err := cl.WaitFor(20*time.Second, func() bool {
			for _, n := range live {
				if n.Dataset(id) == nil {
					return false
				}
			}
			return true
		})
		if err != nil {
			rec.Inconclusive(fmt.Sprintf("%s: marker after %s not applied on every live member (blocked calls: %d)", desc, what, cl.Blocked))
			return false
		}
		steps = append(steps, "marker applied after "+what)
		return true
	}
	checkBooks := func(live []*sim.Node, want map[uint64]string, phase string) bool {
		for _, n := range live {
			b := book(n)
			bad := ""
			for id, addr := range want {
				got, ok := b[id]
				switch {
				case !ok:
					bad = fmt.Sprintf("member %d is not listed", id)
				case got != addr:
					bad = fmt.Sprintf("member %d listed with address %q, announced %q", id, got, addr)
				}
				if bad != "" {
					break
				}
			}
			for id := range b {
				if _, ok := want[id]; !ok && bad == "" {
					bad = fmt.Sprintf("node %d is listed although it is not a member", id)
				}
			}
			if bad != "" {
				sym := "book:wrong"
				switch {
				case containsStr(bad, "not listed"):
					sym = "book:member-missing"
				case containsStr(bad, `address ""`):
					sym = "book:address-empty"
				case containsStr(bad, "not a member"):
					sym = "book:removed-node-listed"
				}
				r := replay()
				r["node"], r["book"], r["expected"] = n.Id, fmtBook(b), fmtBook(want)
				rec.Violation(sym+":"+phase, fmt.Sprintf("%s: node %d %s: %s | book: %s", desc, n.Id, phase, bad, fmtBook(b)), r)
				return false
			}
			rec.Count("books_checked", 1)
		}
		return true
	}
	live := append([]*sim.Node(nil), cl.Nodes...)
	phase := "after-joins"
	if concurrent {
		phase = "after-concurrent-joins"
	}
	if concurrent {
		// the marker is applied on the node it was created through as soon as
		// Create returns; every acknowledged join precedes it in the log or was lost
		var ds interface{ Meta() *pb.Dataset }
		for attempt := 0; attempt < 30 && ds == nil; attempt++ {
			cl.Guard(4*time.Second, func() {
				if d, e := cl.Nodes[0].DM().Create(ctx, &pb.Dataset{Dimension: 2, PartitionCount: 1, ReplicationFactor: 1}); e == nil {
					ds = d
				}
			})
			if ds == nil {
				time.Sleep(150 * time.Millisecond)
			}
		}
		if ds == nil {
			rec.Inconclusive(desc + ": marker after concurrent joins could not be created")
			return
		}
		time.Sleep(200 * time.Millisecond)
		b := book(cl.Nodes[0])
		for id := range joined {
			if _, ok := b[id]; !ok {
				r := replay()
				r["book_of_node_1"] = fmtBook(b)
				rec.Violation("join:acknowledged-but-never-applied:concurrent-joins", fmt.Sprintf("%s: the join of node %d was acknowledged, a later catalogue entry is applied on node 1, but node 1 does not list node %d | book: %s", desc, id, id, fmtBook(b)), r)
				return
			}
		}
	}
	if !marker(cl.Nodes[0], live, "joins") || !checkBooks(live, joined, phase) {
		return
	}
	// --- removal
	if doRemove {
		victim := cl.Nodes[1+rng.Intn(nodes-1)]
		if err := cl.Nodes[0].In.NodesManager.RemoveNode(victim.Id); err != nil {
			rec.Inconclusive(desc + ": RemoveNode: " + err.Error())
			return
		}
		steps = append(steps, fmt.Sprintf("removal of %d acknowledged", victim.Id))
		delete(joined, victim.Id)
		var nl []*sim.Node
		for _, n := range live {
			if n != victim {
				nl = append(nl, n)
			}
		}
		live = nl
		cl.Crash(victim.Idx) // the removed node is shut down
		if !marker(cl.Nodes[0], live, "removal") || !checkBooks(live, joined, "after-removal") {
			return
		}
	}
	// --- a member is down while the others' membership log is compacted, catches up
	// through the leader's snapshot when it returns, and is later restarted with
	// `-join false` (no join handshake): its own state must hold the whole book
	if c%4 == 2 && nodes >= 3 && !doRemove {
		lag := cl.Nodes[1+rng.Intn(nodes-1)]
		cl.Crash(lag.Idx)
		cl.Teardown(lag.Idx)
		steps = append(steps, fmt.Sprintf("node %d down", lag.Id))
		var others []*sim.Node
		for _, n := range live {
			if n != lag {
				others = append(others, n)
			}
		}
		if !marker(cl.Nodes[0], others, "a member went down") {
			return
		}
		for _, n := range others {
			cl.TriggerSnapshot(n, uuid.Nil, 0)
		}
		time.Sleep(150 * time.Millisecond)
		steps = append(steps, "zero group compacted on the members that are up")
		if err := cl.StartNode(lag.Idx); err != nil {
			rec.Inconclusive(fmt.Sprintf("%s: node %d did not come back: %v", desc, lag.Id, err))
			return
		}
		steps = append(steps, fmt.Sprintf("node %d back (re-joined, caught up by snapshot)", lag.Id))
		if !marker(cl.Nodes[0], live, "catch-up by snapshot") || !checkBooks(live, joined, "after-catch-up-by-snapshot") {
			return
		}
		prev := lag.In.ZeroGroup.VerifStatus().Commit
		lag.NoRejoin = true
		steps = append(steps, fmt.Sprintf("restart of %d with -join false", lag.Id))
		if err := cl.Restart(lag.Idx); err != nil {
			rec.Violation("restart:failed:without-rejoin", fmt.Sprintf("%s: restart of node %d: %v", desc, lag.Id, err), replay())
			return
		}
		if cl.WaitFor(15*time.Second, func() bool { return lag.In != nil && lag.In.ZeroGroup.VerifStatus().Applied >= prev }) != nil {
			rec.Inconclusive(fmt.Sprintf("%s: node %d did not re-apply its committed log", desc, lag.Id))
			return
		}
		time.Sleep(100 * time.Millisecond)
		if !checkBooks([]*sim.Node{lag}, joined, "after-restart-without-rejoin-of-member-caught-up-by-snapshot") {
			return
		}
		rec.Seen("phases", "after-restart-without-rejoin-of-member-caught-up-by-snapshot")
		lag.NoRejoin = false
	}
	// --- compaction of the membership log, then restart of a member
	if compact {
		for _, n := range live {
			cl.TriggerSnapshot(n, uuid.Nil, 0)
		}
		time.Sleep(100 * time.Millisecond)
		steps = append(steps, "zero group compacted on every live member")
	}
	victim := live[rng.Intn(len(live))]
	steps = append(steps, fmt.Sprintf("restart of %d", victim.Id))
	prevCommit := victim.In.ZeroGroup.VerifStatus().Commit
	if err := cl.Restart(victim.Idx); err != nil {
		sym := "restart:failed"
		if containsStr(err.Error(), "join handshake did not return") {
			sym = "restart:join-handshake-hangs"
			if compact {
				sym += ":with-compacted-log"
			}
		}
		rec.Violation(sym, fmt.Sprintf("%s: restart of node %d: %v", desc, victim.Id, err), replay())
		return
	}
	via := cl.Nodes[0]
	if via == victim && len(live) > 1 {
		via = live[1]
		if via == victim {
			via = live[0]
		}
	}
	kind := "joiner"
	if victim.Idx == 0 {
		kind = "bootstrap-node"
	}
	ph := "after-restart-of-" + kind
	if compact {
		ph += "-with-compacted-log"
	}
	// the restarted member has recovered its membership view once it has applied
	// everything that was committed on it before the restart (and, for a
	// joiner, its join handshake has returned - StartNode waits for that)
	if cl.WaitFor(15*time.Second, func() bool { return victim.In != nil && victim.In.ZeroGroup.VerifStatus().Applied >= prevCommit }) != nil {
		rec.Inconclusive(fmt.Sprintf("%s: restarted node %d did not re-apply its committed log within the watchdog", desc, victim.Id))
		return
	}
	time.Sleep(100 * time.Millisecond)
	if !checkBooks([]*sim.Node{victim}, joined, ph) {
		return
	}
	if !marker(via, live, "restart") {
		return
	}
	checkBooks(live, joined, ph)
	rec.Seen("phases", ph)
	rec.Case(mon.Digest(desc), true)
	if rec.WantSample() {
		rec.Sample(replay())
	}
}

func containsStr(s, sub string) bool {
	for i := 0; i+len(sub) <= len(s); i++ {
		if s[i:i+len(sub)] == sub {
			return true
		}
	}
	return false
}
