package mon

import (
	"encoding/json"
	"fmt"
	"os"
	"os/exec"
	"path/filepath"
	"regexp"
	"strings"
	"time"
)

// Isolated is the outcome of a case run in its own process.
type Isolated struct {
	ExitCode int
	TimedOut bool
	Summary  *Summary // nil when the child wrote none
	Crash    string   // first panic / fatal error line ("" when none)
	Frame    string   // first /repo frame below it
	LogTail  []string
}

var hexRe = regexp.MustCompile(`0x[0-9a-f]+`)
var frameRe = regexp.MustCompile(`(github\.com/marekgalovic/anndb[^\s(]*)`)

// ClassifyLog finds the first panic / fatal error line of a Go process log.
func ClassifyLog(log string) (crash, frame string, tail []string) {
	lines := strings.Split(log, "\n")
	first := -1
	for i, l := range lines {
		if strings.HasPrefix(l, "panic:") || strings.HasPrefix(l, "fatal error:") || strings.Contains(l, "unexpected signal") || strings.HasPrefix(l, "FATAL-EXIT") {
			first = i
			break
		}
	}
	if first < 0 {
		if len(lines) > 40 {
			lines = lines[len(lines)-40:]
		}
		return "", "", lines
	}
	crash = hexRe.ReplaceAllString(lines[first], "0x?")
	if len(crash) > 160 {
		crash = crash[:160]
	}
	end := first + 200
	if end > len(lines) {
		end = len(lines)
	}
	for _, l := range lines[first:end] {
		if m := frameRe.FindString(l); m != "" {
			frame = m
			break
		}
	}
	e := first + 60
	if e > len(lines) {
		e = len(lines)
	}
	return crash, frame, lines[first:e]
}

// RunIsolated re-executes the running test binary with -test.run=<testRe> and
// the given extra environment in a process of its own, so that a process-fatal
// failure (runtime out of memory, fault in assembly, log.Fatal / os.Exit inside
// the code under test) ends only that case. The child gets its own VERIF_OUT;
// its recorder summary, if any, is returned.
func (r *Recorder) RunIsolated(testRe string, env map[string]string, timeout time.Duration) *Isolated {
	dir, err := os.MkdirTemp(os.Getenv("VERIF_SCRATCH"), "iso-")
	if err != nil {
		return &Isolated{ExitCode: -1, Crash: "mktemp: " + err.Error()}
	}
	defer os.RemoveAll(dir)
	logPath := filepath.Join(dir, "log")
	logF, _ := os.Create(logPath)
	cmd := exec.Command(os.Args[0], "-test.run", testRe, "-test.timeout", "0", "-test.count", "1")
	cmd.Env = append(os.Environ(),
		"VERIF_OUT="+dir, "VERIF_SHARD=0/1", "VERIF_ISOLATED=1", fmt.Sprintf("VERIF_PORT_SHARD=%d", r.shard),
		fmt.Sprintf("VERIF_SEED=%d", r.seed), "VERIF_TIER="+r.tier)
	for k, v := range env {
		cmd.Env = append(cmd.Env, k+"="+v)
	}
	cmd.Stdout, cmd.Stderr = logF, logF
	cmd.Dir = dir
	out := &Isolated{}
	if err := cmd.Start(); err != nil {
		logF.Close()
		return &Isolated{ExitCode: -1, Crash: "start: " + err.Error()}
	}
	done := make(chan error, 1)
	go func() { done <- cmd.Wait() }()
	select {
	case err = <-done:
	case <-time.After(timeout):
		out.TimedOut = true
		cmd.Process.Kill()
		err = <-done
	}
	logF.Close()
	if cmd.ProcessState != nil {
		out.ExitCode = cmd.ProcessState.ExitCode()
	}
	if b, err := os.ReadFile(filepath.Join(dir, "shard-0.json")); err == nil {
		var s Summary
		if json.Unmarshal(b, &s) == nil {
			out.Summary = &s
		}
	}
	if b, err := os.ReadFile(logPath); err == nil {
		if len(b) > 1<<20 {
			b = b[:1<<20]
		}
		out.Crash, out.Frame, out.LogTail = ClassifyLog(string(b))
	}
	return out
}

// Merge folds an isolated child's summary into this recorder.
func (r *Recorder) Merge(s *Summary) {
	if s == nil {
		return
	}
	r.mu.Lock()
	defer r.mu.Unlock()
	r.evals += s.Evaluations
	for _, d := range s.Digests {
		r.digests[d] = struct{}{}
	}
	for k, v := range s.Counters {
		r.counters[k] += v
	}
	for k, v := range s.Maxima {
		if cur, ok := r.maxima[k]; !ok || v > cur {
			r.maxima[k] = v
		}
	}
	for k, l := range s.Sets {
		m := r.sets[k]
		if m == nil {
			m = make(map[string]struct{})
			r.sets[k] = m
		}
		for _, x := range l {
			m[x] = struct{}{}
		}
	}
	for _, smp := range s.Samples {
		if len(r.samples) < r.maxSamp {
			r.samples = append(r.samples, smp)
		}
	}
	for _, v := range s.Violations {
		if cur := r.viol[v.Sig]; cur != nil {
			cur.Count += v.Count
		} else {
			cp := *v
			r.viol[v.Sig] = &cp
			r.violOrd = append(r.violOrd, v.Sig)
		}
	}
	r.inconc = append(r.inconc, s.Inconclusive...)
}
