// Package mon is the shared recorder used by every property monitor.
//
// A monitor process ("child") is started by bin/vcheck with
//
//	VERIF_PROP   property id (C01…)
//	VERIF_SEED   integer seed (default 1)
//	VERIF_TIER   quick | thorough
//	VERIF_SHARD  "i/n"   this child handles cases c with c % n == i
//	VERIF_OUT    directory; the child writes shard-<i>.json there on Close
//
// Everything that ends up in /verif/evidence/<id>.json is counted here, by the
// machinery, while it runs: evaluations, the set of digests of the cases that
// were non-trivial by the monitor's own rule, named counters, a few literal
// samples, violations (deduplicated by signature, first witness kept) and
// inconclusive outcomes.
package mon

import (
	"encoding/json"
	"fmt"
	"hash/fnv"
	"math/rand"
	"os"
	"path/filepath"
	"sort"
	"strconv"
	"strings"
	"sync"
	"testing"
	"time"
)

type Violation struct {
	Sig    string      `json:"sig"`
	Detail string      `json:"detail"`
	Count  int         `json:"count"`
	Replay interface{} `json:"replay,omitempty"`
}

type Summary struct {
	Prop         string             `json:"prop"`
	Seed         int64              `json:"seed"`
	Tier         string             `json:"tier"`
	Shard        int                `json:"shard"`
	Shards       int                `json:"shards"`
	Evaluations  int64              `json:"evaluations"`
	Digests      []uint64           `json:"digests"`
	Counters     map[string]int64   `json:"counters"`
	Maxima       map[string]int64   `json:"maxima"`
	Sets         map[string][]string `json:"sets"`
	Samples      []interface{}      `json:"samples"`
	Violations   []*Violation       `json:"violations"`
	Inconclusive []string           `json:"inconclusive"`
	WallS        float64            `json:"wall_s"`
	Complete     bool               `json:"complete"`
}

type Recorder struct {
	mu       sync.Mutex
	prop     string
	seed     int64
	tier     string
	shard    int
	shards   int
	out      string
	start    time.Time
	evals    int64
	digests  map[uint64]struct{}
	counters map[string]int64
	maxima   map[string]int64
	sets     map[string]map[string]struct{}
	samples  []interface{}
	maxSamp  int
	viol     map[string]*Violation
	violOrd  []string
	inconc   []string
}

func envInt(name string, def int64) int64 {
	if v := os.Getenv(name); v != "" {
		if n, err := strconv.ParseInt(v, 10, 64); err == nil {
			return n
		}
	}
	return def
}

// Open creates the recorder for a monitor process. When VERIF_OUT is unset
// (a developer running `go test` by hand) the summary is printed to stdout.
func Open(prop string) *Recorder {
	r := &Recorder{
		prop:     prop,
		seed:     envInt("VERIF_SEED", 1),
		tier:     os.Getenv("VERIF_TIER"),
		shards:   1,
		out:      os.Getenv("VERIF_OUT"),
		start:    time.Now(),
		digests:  make(map[uint64]struct{}),
		counters: make(map[string]int64),
		maxima:   make(map[string]int64),
		sets:     make(map[string]map[string]struct{}),
		maxSamp:  4,
		viol:     make(map[string]*Violation),
	}
	if r.tier == "" {
		r.tier = "quick"
	}
	if s := os.Getenv("VERIF_SHARD"); s != "" {
		parts := strings.SplitN(s, "/", 2)
		if len(parts) == 2 {
			i, _ := strconv.Atoi(parts[0])
			n, _ := strconv.Atoi(parts[1])
			if n > 0 && i >= 0 && i < n {
				r.shard, r.shards = i, n
			}
		}
	}
	return r
}

func (r *Recorder) Seed() int64    { return r.seed }
func (r *Recorder) Tier() string   { return r.tier }
func (r *Recorder) Quick() bool    { return r.tier != "thorough" }
func (r *Recorder) Shard() int     { return r.shard }
func (r *Recorder) Shards() int    { return r.shards }
func (r *Recorder) Mine(c int) bool { return c%r.shards == r.shard }

// N picks the tier's case count.
func (r *Recorder) N(quick, thorough int) int {
	if r.Quick() {
		return quick
	}
	return thorough
}

// Rand returns the PRNG of case c: a pure function of (VERIF_SEED, stream, c).
func (r *Recorder) Rand(stream string, c int) *rand.Rand {
	h := fnv.New64a()
	fmt.Fprintf(h, "%d|%s|%d", r.seed, stream, c)
	return rand.New(rand.NewSource(int64(splitmix(h.Sum64()))))
}

func splitmix(x uint64) uint64 {
	x += 0x9e3779b97f4a7c15
	x = (x ^ (x >> 30)) * 0xbf58476d1ce4e5b9
	x = (x ^ (x >> 27)) * 0x94d049bb133111eb
	return x ^ (x >> 31)
}

// Digest hashes a printable description of a case.
func Digest(parts ...interface{}) uint64 {
	h := fnv.New64a()
	for _, p := range parts {
		fmt.Fprintf(h, "%v\x00", p)
	}
	return h.Sum64()
}

// Case records one evaluated case; nontrivial cases contribute their digest
// to the distinct set.
func (r *Recorder) Case(digest uint64, nontrivial bool) {
	r.mu.Lock()
	r.evals++
	if nontrivial {
		r.digests[digest] = struct{}{}
	}
	r.mu.Unlock()
}

func (r *Recorder) Count(name string, n int64) {
	r.mu.Lock()
	r.counters[name] += n
	r.mu.Unlock()
}

func (r *Recorder) Max(name string, v int64) {
	r.mu.Lock()
	if cur, ok := r.maxima[name]; !ok || v > cur {
		r.maxima[name] = v
	}
	r.mu.Unlock()
}

// Seen adds a member to a named set of distinct things observed (crash points
// reached, message types checked, interleaving signatures …).
func (r *Recorder) Seen(set, member string) {
	r.mu.Lock()
	m := r.sets[set]
	if m == nil {
		m = make(map[string]struct{})
		r.sets[set] = m
	}
	if len(m) < 5000 {
		m[member] = struct{}{}
	}
	r.mu.Unlock()
}

func (r *Recorder) Sample(v interface{}) {
	r.mu.Lock()
	if len(r.samples) < r.maxSamp {
		r.samples = append(r.samples, v)
	}
	r.mu.Unlock()
}

func (r *Recorder) WantSample() bool {
	r.mu.Lock()
	defer r.mu.Unlock()
	return len(r.samples) < r.maxSamp
}

// Violation records a refutation. sig is the *specific* signature that the
// known-findings file is matched against (call site / input class / history
// shape / symptom); replay is kept for the first occurrence of each signature.
func (r *Recorder) Violation(sig, detail string, replay interface{}) {
	r.mu.Lock()
	v := r.viol[sig]
	if v == nil {
		v = &Violation{Sig: sig, Detail: detail, Replay: replay}
		r.viol[sig] = v
		r.violOrd = append(r.violOrd, sig)
	}
	v.Count++
	r.mu.Unlock()
}

func (r *Recorder) Violations() int {
	r.mu.Lock()
	defer r.mu.Unlock()
	n := 0
	for _, v := range r.viol {
		n += v.Count
	}
	return n
}

func (r *Recorder) Inconclusive(reason string) {
	r.mu.Lock()
	if len(r.inconc) < 50 {
		r.inconc = append(r.inconc, reason)
	}
	r.counters["inconclusive"]++
	r.mu.Unlock()
}

func (r *Recorder) summary(complete bool) *Summary {
	s := &Summary{
		Prop: r.prop, Seed: r.seed, Tier: r.tier, Shard: r.shard, Shards: r.shards,
		Evaluations: r.evals, Counters: r.counters, Maxima: r.maxima,
		Samples: r.samples, Inconclusive: r.inconc,
		WallS: time.Since(r.start).Seconds(), Complete: complete,
		Sets: make(map[string][]string),
	}
	for d := range r.digests {
		s.Digests = append(s.Digests, d)
	}
	sort.Slice(s.Digests, func(i, j int) bool { return s.Digests[i] < s.Digests[j] })
	for name, m := range r.sets {
		var l []string
		for k := range m {
			l = append(l, k)
		}
		sort.Strings(l)
		s.Sets[name] = l
	}
	for _, sig := range r.violOrd {
		s.Violations = append(s.Violations, r.viol[sig])
	}
	return s
}

// Checkpoint writes the summary so far (complete=false). A child that is about
// to do something that may kill the process calls it first, so what was
// observed up to that point is not lost.
func (r *Recorder) Checkpoint() { r.write(false) }

// Close writes the final summary.
func (r *Recorder) Close() { r.write(true) }

func (r *Recorder) write(complete bool) {
	r.mu.Lock()
	s := r.summary(complete)
	b, err := json.Marshal(s)
	r.mu.Unlock()
	if err != nil {
		fmt.Fprintf(os.Stderr, "mon: marshal: %v\n", err)
		// A replay value that cannot be marshalled must not lose the verdict.
		r.mu.Lock()
		for _, v := range r.viol {
			v.Replay = fmt.Sprintf("%+v", v.Replay)
		}
		s = r.summary(complete)
		for i := range s.Samples {
			s.Samples[i] = fmt.Sprintf("%+v", s.Samples[i])
		}
		b, _ = json.Marshal(s)
		r.mu.Unlock()
	}
	if r.out == "" {
		if complete {
			fmt.Printf("MON %s evaluations=%d distinct=%d violations=%d counters=%v\n", r.prop, s.Evaluations, len(s.Digests), len(s.Violations), s.Counters)
			for _, v := range s.Violations {
				fmt.Printf("MON VIOLATION sig=%s count=%d detail=%s\n", v.Sig, v.Count, v.Detail)
			}
		}
		return
	}
	tmp := filepath.Join(r.out, fmt.Sprintf(".shard-%d.tmp", r.shard))
	if err := os.WriteFile(tmp, b, 0o644); err != nil {
		fmt.Fprintf(os.Stderr, "mon: write: %v\n", err)
		return
	}
	os.Rename(tmp, filepath.Join(r.out, fmt.Sprintf("shard-%d.json", r.shard)))
}

// Finish is the usual tail of a monitor's TestXxx: write the summary and make
// a by-hand `go test` run fail visibly when something was refuted.
func (r *Recorder) Finish(t *testing.T) {
	r.Close()
	if r.out == "" && r.Violations() > 0 {
		t.Errorf("%s: %d violations", r.prop, r.Violations())
	}
}

// Current notes the case that is about to run in a side file, so that the
// driver can attribute a process-fatal failure (runtime fatal error, os.Exit
// inside the code under test) to it.
func (r *Recorder) Current(desc string) {
	if r.out == "" {
		return
	}
	os.WriteFile(filepath.Join(r.out, fmt.Sprintf("current-%d.txt", r.shard)), []byte(desc), 0o644)
}

// Sprint helpers used in signatures and details.
func F(format string, a ...interface{}) string { return fmt.Sprintf(format, a...) }
