// C13 — the index is safe under concurrent inserts, removals and searches.
// Oracles over the same stress runs: Go race detector (build flag, collected by
// the driver), per-id linearizability (porcupine), search-item liveness
// intervals, quiescent invariants, deadlock watchdog.
package c13

import (
	"fmt"
	"math"
	"math/rand"
	"os"
	"runtime"
	"sort"
	"strconv"
	"strings"
	"sync"
	"sync/atomic"
	"testing"
	"time"

	"github.com/anishathalye/porcupine"
	"github.com/marekgalovic/anndb/index"
	amath "github.com/marekgalovic/anndb/math"
	"verif/harness/hx"
	"verif/harness/mon"
)

type opIn struct {
	Kind string // insert | remove | get
	Id   int
	Ver  int
}
type opOut struct {
	Ok  bool
	Ver int // get: version found (-1 = not found)
}

type searchRec struct {
	call, ret int64
	query     amath.Vector
	k         uint
	res       index.SearchResult
	err       error
}

var clock0 = time.Now()

func now() int64 { return int64(time.Since(clock0)) }

var model = porcupine.Model{
	Partition: func(h []porcupine.Operation) [][]porcupine.Operation {
		m := map[int][]porcupine.Operation{}
		for _, o := range h {
			id := o.Input.(opIn).Id
			m[id] = append(m[id], o)
		}
		var ids []int
		for id := range m {
			ids = append(ids, id)
		}
		sort.Ints(ids)
		out := make([][]porcupine.Operation, 0, len(ids))
		for _, id := range ids {
			out = append(out, m[id])
		}
		return out
	},
	Init: func() interface{} { return -1 },
	Step: func(st, in, out interface{}) (bool, interface{}) {
		s, i, o := st.(int), in.(opIn), out.(opOut)
		switch i.Kind {
		case "insert":
			if s == -1 {
				return o.Ok, i.Ver
			}
			return !o.Ok, s
		case "remove":
			if s == -1 {
				return !o.Ok, s
			}
			return o.Ok, -1
		}
		return o.Ver == s, s
	},
}

type insRec struct {
	call, ret int64
	vec       amath.Vector
	id        int
	ok        bool
}

func TestC13(t *testing.T) {
	rec := mon.Open("C13")
	defer rec.Finish(t)
	runs := rec.N(200, 4000)
	for c := 0; c < runs; c++ {
		if rec.Mine(c) {
			if c%10 == 9 {
				duels(rec, c)
				continue
			}
			if c%40 == 13 {
				bulk(rec, c)
				continue
			}
			if !runOne(rec, c) {
				return
			}
		}
	}
}

func runOne(rec *mon.Recorder, c int) bool {
	rng := rec.Rand("c13", c)
	cfg := hx.GenCfg(rng)
	if rng.Intn(2) == 0 {
		cfg.M = 2 + rng.Intn(4)
	}
	cfg.Ef, cfg.EfC = 4+rng.Intn(20), 4+rng.Intn(20)
	idx, sp := cfg.New()
	nIds := 4 + rng.Intn(21)
	if c%5 == 4 {
		// one or two ids: the index is empty again and again, so inserts and
		// removes of the same id race for the first entry point
		nIds = 1 + c/5%2
	}
	manyWriters := c%2 == 1
	workload := "single-writer"
	writers, readers := 1, 2+rng.Intn(10)
	if manyWriters {
		workload = "many-writers"
		writers = 2 + rng.Intn(14)
		readers = rng.Intn(8)
	}
	opsPerWriter := rec.N(1500, 4000) / writers
	if opsPerWriter < 100 {
		opsPerWriter = 100
	}
	if nIds <= 2 {
		// every operation is on the same one or two ids: keep the per-id
		// histories within what the linearizability checker decides quickly
		opsPerWriter = 400 / writers
		if opsPerWriter < 12 {
			opsPerWriter = 12
		}
	}
	procs := 16
	if c%4 >= 2 {
		procs = 2
	}
	prev := runtime.GOMAXPROCS(procs)
	defer runtime.GOMAXPROCS(prev)
	desc := fmt.Sprintf("run=%d %s writers=%d readers=%d ids=%d procs=%d cfg=%s", c, workload, writers, readers, nIds, procs, cfg.String())
	rec.Current(desc)

	// seeded scheduling noise at the index's yield points
	var yctr uint64
	yseed := uint64(rng.Int63())
	index.VerifYield = func(point string) {
		n := atomic.AddUint64(&yctr, 1)
		h := (n*0x9e3779b97f4a7c15 ^ yseed) >> 33
		switch {
		case h%4 == 0:
			runtime.Gosched()
		case h%97 == 1:
			time.Sleep(time.Duration(h%50) * time.Microsecond)
		}
	}
	defer func() { index.VerifYield = nil }()

	var mu sync.Mutex
	var hist []porcupine.Operation
	var searches []searchRec
	inserts := map[int]*insRec{} // by version
	var removes []struct {
		call, ret int64
		id        int
	}
	var verCtr int64
	var panics int64
	fail := func(oracle, sym, detail string, replay interface{}) {
		rec.Violation(fmt.Sprintf("%s:%s:%s", workload, oracle, sym), desc+": "+detail, replay)
	}
	guard := func(name string) {
		if r := recover(); r != nil {
			atomic.AddInt64(&panics, 1)
			buf := make([]byte, 4096)
			buf = buf[:runtime.Stack(buf, false)]
			frame := ""
			for _, l := range strings.Split(string(buf), "\n") {
				if strings.Contains(l, "marekgalovic/anndb/index.") {
					frame = strings.TrimSpace(strings.Split(l, "(")[0])
					break
				}
			}
			fail("panic", fmt.Sprintf("%s@%s", strings.SplitN(fmt.Sprint(r), " 0x", 2)[0], frame), fmt.Sprintf("%s: %v", name, r), string(buf))
		}
	}

	var wg sync.WaitGroup
	stop := make(chan struct{})
	for w := 0; w < writers; w++ {
		wg.Add(1)
		wrng := rec.Rand(fmt.Sprintf("c13-w%d", w), c)
		go func(w int) {
			defer wg.Done()
			defer guard("writer")
			var local []porcupine.Operation
			var lrem []struct {
				call, ret int64
				id        int
			}
			linserts := map[int]*insRec{}
			for i := 0; i < opsPerWriter; i++ {
				id := wrng.Intn(nIds)
				switch r := wrng.Intn(10); {
				case r < 5:
					ver := int(atomic.AddInt64(&verCtr, 1))
					v := cfg.Vec(wrng)
					v[0] = float32(ver)
					lvl := wrng.Intn(wrng.Intn(4) + 1)
					md := index.Metadata{"v": strconv.Itoa(ver)}
					t0 := now()
					err := idx.Insert(hx.Id(id), v, md, lvl)
					t1 := now()
					if err != nil && err != index.ItemAlreadyExistsError {
						fail("api", "insert-error", err.Error(), nil)
					}
					local = append(local, porcupine.Operation{ClientId: w, Input: opIn{"insert", id, ver}, Call: t0, Output: opOut{Ok: err == nil}, Return: t1})
					linserts[ver] = &insRec{t0, t1, v, id, err == nil}
				case r < 9:
					t0 := now()
					err := idx.Remove(hx.Id(id))
					t1 := now()
					if err != nil && err != index.ItemNotFoundError {
						fail("api", "remove-error", err.Error(), nil)
					}
					local = append(local, porcupine.Operation{ClientId: w, Input: opIn{"remove", id, 0}, Call: t0, Output: opOut{Ok: err == nil}, Return: t1})
					if err == nil {
						lrem = append(lrem, struct {
							call, ret int64
							id        int
						}{t0, t1, id})
					}
				default:
					t0 := now()
					v, err := idx.Get(hx.Id(id))
					t1 := now()
					ver := -1
					if err == nil && len(v) > 0 {
						ver = int(v[0])
					}
					local = append(local, porcupine.Operation{ClientId: w, Input: opIn{"get", id, 0}, Call: t0, Output: opOut{Ver: ver}, Return: t1})
				}
			}
			mu.Lock()
			hist = append(hist, local...)
			removes = append(removes, lrem...)
			for k, v := range linserts {
				inserts[k] = v
			}
			mu.Unlock()
		}(w)
	}
	var rwg sync.WaitGroup
	var abandoned int64
	for r := 0; r < readers; r++ {
		rwg.Add(1)
		rrng := rec.Rand(fmt.Sprintf("c13-r%d", r), c)
		go func(r int) {
			defer rwg.Done()
			defer guard("reader")
			var local []porcupine.Operation
			var ls []searchRec
			for i := 0; ; i++ {
				select {
				case <-stop:
					mu.Lock()
					hist = append(hist, local...)
					searches = append(searches, ls...)
					mu.Unlock()
					return
				default:
				}
				if len(ls) > 3000 {
					time.Sleep(50 * time.Microsecond)
					continue
				}
				switch rrng.Intn(4) {
				case 0:
					id := rrng.Intn(nIds)
					t0 := now()
					v, err := idx.Get(hx.Id(id))
					t1 := now()
					ver := -1
					if err == nil && len(v) > 0 {
						ver = int(v[0])
					}
					if len(local) < 1500 {
						local = append(local, porcupine.Operation{ClientId: 100 + r, Input: opIn{"get", id, 0}, Call: t0, Output: opOut{Ver: ver}, Return: t1})
					}
				case 1:
					if n := idx.Len(); n < 0 || n > nIds {
						fail("len", "out-of-range", fmt.Sprintf("Len()=%d with %d ids in use", n, nIds), nil)
					}
				default:
					q := cfg.Vec(rrng)
					k := uint(1 + rrng.Intn(nIds+2))
					t0 := now()
					if rrng.Intn(4) == 0 {
						// the caller goes away while the search runs (a client that hangs up, a deadline): a search that
						// was given up is not judged, one that was finished is judged like any other
						res, gaveUp, err := hx.SearchAbandoned(idx, q, k, time.Duration(rrng.Intn(30))*time.Microsecond)
						t1 := now()
						atomic.AddInt64(&abandoned, 1)
						if !gaveUp {
							ls = append(ls, searchRec{t0, t1, q, k, res, err})
						}
						break
					}
					res, err := hx.Search(idx, q, k)
					t1 := now()
					ls = append(ls, searchRec{t0, t1, q, k, res, err})
				}
			}
		}(r)
	}
	// deadlock watchdog (wall clock is only the trigger; the verdict is structural)
	done := make(chan struct{})
	go func() { wg.Wait(); close(stop); rwg.Wait(); close(done) }()
	select {
	case <-done:
	case <-time.After(120 * time.Second):
		d1 := lockWaiters()
		time.Sleep(2 * time.Second)
		d2 := lockWaiters()
		if len(d1) > 0 && fmt.Sprint(d1) == fmt.Sprint(d2) {
			fail("deadlock", "goroutines-parked-on-index-locks", fmt.Sprintf("%d goroutines parked on index locks in two dumps 2 s apart: %v", len(d1), d1), nil)
		} else {
			rec.Inconclusive("run did not finish in 120 s but no stable lock wait-set: " + desc)
		}
		rec.Close()
		os.Exit(0) // stuck goroutines cannot be reclaimed
	}

	rec.Count("searches_abandoned_by_their_caller", atomic.LoadInt64(&abandoned))
	// final sequential Gets become part of the history: they pin the final state
	tEnd := now()
	live := hx.Ref{}
	for id := 0; id < nIds; id++ {
		v, err := idx.Get(hx.Id(id))
		ver := -1
		if err == nil {
			ver = int(v[0])
			_, md, _, _ := idx.VerifGetItem(hx.Id(id))
			live[hx.Id(id)] = &hx.Item{Vec: v, Meta: md}
		}
		tEnd++
		hist = append(hist, porcupine.Operation{ClientId: 999, Input: opIn{"get", id, 0}, Call: tEnd, Output: opOut{Ver: ver}, Return: tEnd})
		tEnd++
	}
	rec.Count("history_ops", int64(len(hist)))
	rec.Count("searches", int64(len(searches)))

	if atomic.LoadInt64(&panics) > 0 {
		// a goroutine that panicked lost its local history (and the operation
		// in flight may or may not have taken effect): the panic is the
		// verdict of this run, the history oracles have nothing sound to say
		rec.Inconclusive("history oracles skipped after a panic: " + desc)
		rec.Case(mon.Digest(desc), true)
		return true
	}
	// (2) per-id linearizability
	res, info := porcupine.CheckOperationsVerbose(model, hist, 60*time.Second)
	switch res {
	case porcupine.Illegal:
		_ = info
		// find one offending partition to show
		var witness []string
		for _, part := range model.Partition(hist) {
			if porcupine.CheckOperationsTimeout(model, part, 20*time.Second) == porcupine.Illegal {
				sort.Slice(part, func(i, j int) bool { return part[i].Call < part[j].Call })
				for i, o := range part {
					if i > 60 {
						break
					}
					witness = append(witness, fmt.Sprintf("[%d,%d] c%d %v -> %v", o.Call, o.Return, o.ClientId, o.Input, o.Output))
				}
				break
			}
		}
		fail("linearizability", "illegal-history", "per-id history of Insert/Remove/Get is not linearizable", witness)
	case porcupine.Unknown:
		rec.Inconclusive("porcupine timed out: " + desc)
	default:
		rec.Count("linearizable_histories", 1)
	}

	// (3) search-item liveness
	remById := map[int][]struct{ call, ret int64 }{}
	for _, r := range removes {
		remById[r.id] = append(remById[r.id], struct{ call, ret int64 }{r.call, r.ret})
	}
	for _, s := range searches {
		if s.err != nil {
			fail("search", "error", s.err.Error(), nil)
			break
		}
		if uint(len(s.res)) > s.k {
			fail("search", "more-than-k", fmt.Sprintf("%d items for k=%d", len(s.res), s.k), nil)
			break
		}
		// the same stored version twice is a defect; two versions of one id can
		// both have been live during a search that overlaps an update
		seen := map[int]bool{}
		bad := false
		for i, it := range s.res {
			ver, _ := strconv.Atoi(it.Metadata["v"])
			ins := inserts[ver]
			switch {
			case seen[ver]:
				fail("search", "duplicate-item", fmt.Sprintf("id %d version %d twice", hx.IdNum(it.Id), ver), nil)
				bad = true
			case ins == nil || !ins.ok || hx.Id(ins.id) != it.Id:
				fail("search", "item-never-inserted", fmt.Sprintf("id %d version %d was never successfully inserted", hx.IdNum(it.Id), ver), nil)
				bad = true
			case ins.call > s.ret:
				fail("search", "item-from-the-future", fmt.Sprintf("version %d inserted after the search returned", ver), nil)
				bad = true
			case math.Float32bits(sp.Distance(s.query, ins.vec)) != math.Float32bits(it.Score):
				fail("search", "wrong-score", fmt.Sprintf("version %d score %v want %v", ver, it.Score, sp.Distance(s.query, ins.vec)), nil)
				bad = true
			case i > 0 && s.res[i-1].Score > it.Score:
				fail("search", "not-ascending", "scores not ascending", nil)
				bad = true
			default:
				for _, r := range remById[ins.id] {
					if r.call >= ins.ret && r.ret <= s.call {
						fail("search", "item-dead-for-whole-search", fmt.Sprintf("id %d version %d: a successful Remove completed at %d, before the search was called at %d", ins.id, ver, r.ret, s.call), nil)
						bad = true
						break
					}
				}
			}
			seen[ver] = true
			if bad {
				break
			}
		}
		if bad {
			break
		}
		rec.Count("search_results_checked", 1)
	}

	// (4) quiescence
	d := idx.VerifDump()
	if idx.Len() != len(live) {
		fail("quiescent", "len-counter", fmt.Sprintf("Len()=%d but Get succeeds for %d ids", idx.Len(), len(live)), nil)
	} else if sym, det := hx.DumpInvariants(d, sp); sym != "" {
		fail("quiescent", sym, det, nil)
	} else if diff := hx.ContentDiff(d, live); diff != "" {
		fail("quiescent", "contents", diff, nil)
	} else {
		qr := rec.Rand("c13-q", c)
		for i := 0; i < 20; i++ {
			q := cfg.Vec(qr)
			k := uint(1 + qr.Intn(nIds+2))
			res, err := hx.Search(idx, q, k)
			if err != nil {
				fail("quiescent", "search-error", err.Error(), nil)
				break
			}
			if sym, det := hx.CheckSearch(sp, live, q, k, res); sym != "" {
				fail("quiescent", "search-"+sym, det, nil)
				break
			}
		}
		rec.Count("quiescent_checks", 1)
	}
	rec.Seen("workloads", fmt.Sprintf("%s/procs=%d", workload, procs))
	rec.Case(mon.Digest(desc), len(hist) > 100)
	if rec.WantSample() {
		rec.Sample(map[string]interface{}{"run": desc, "history_ops": len(hist), "searches": len(searches), "yield_points_hit": atomic.LoadUint64(&yctr)})
	}
	rec.Count("yield_points_hit", int64(atomic.LoadUint64(&yctr)))
	return true
}

// lockWaiters lists the goroutines currently parked on a mutex below an index frame.
func lockWaiters() []string {
	buf := make([]byte, 4<<20)
	buf = buf[:runtime.Stack(buf, true)]
	var out []string
	for _, g := range strings.Split(string(buf), "\n\n") {
		if (strings.Contains(g, "sync.(*RWMutex)") || strings.Contains(g, "sync.(*Mutex)")) && strings.Contains(g, "marekgalovic/anndb/index.") {
			head := strings.SplitN(g, "\n", 2)[0]
			out = append(out, strings.SplitN(head, " [", 2)[0])
		}
	}
	sort.Strings(out)
	return out
}

// duels: many tiny histories on an index that is empty or holds one item. In
// each, 2-4 goroutines insert and remove the same one or two ids concurrently
// (with scheduling noise at the index's yield points), then the index is
// inspected at quiescence. With so few operations the outcome is decided
// exactly: an id is stored iff its last successful operation in every legal
// order could be an insert - here simply: contents must equal what sequential
// Gets report, the structural invariants must hold (entry point live and
// stored iff the index is non-empty), and a search must satisfy what C01
// states for a sequential history (live items only, true scores, ascending,
// unique, at most k, not empty when something is stored).
func duels(rec *mon.Recorder, c int) {
	rng := rec.Rand("c13-duel", c)
	cfg := hx.GenCfg(rng)
	desc0 := fmt.Sprintf("run=%d duels cfg=%s", c, cfg.String())
	rec.Current(desc0)
	var yctr uint64
	yseed := uint64(rng.Int63())
	index.VerifYield = func(point string) {
		n := atomic.AddUint64(&yctr, 1)
		h := (n*0x9e3779b97f4a7c15 ^ yseed) >> 33
		switch {
		case h%3 == 0:
			runtime.Gosched()
		case h%11 == 1:
			time.Sleep(time.Duration(h%20) * time.Microsecond)
		}
	}
	defer func() { index.VerifYield = nil }()
	prev := runtime.GOMAXPROCS(2 + c/10%3*7) // 2, 9 or 16
	defer runtime.GOMAXPROCS(prev)
	rounds := rec.N(1500, 6000)
	bad := false
	for round := 0; round < rounds && !bad; round++ {
		idx, sp := cfg.New()
		nIds := 1 + rng.Intn(2)
		pre := rng.Intn(3) == 0 // start from a one-item index instead of an empty one
		if pre {
			idx.Insert(hx.Id(7), cfg.Vec(rng), index.Metadata{"v": "pre"}, rng.Intn(3))
		}
		actors := 2 + rng.Intn(3)
		type act struct {
			insert bool
			id     int
			vec    amath.Vector
			lvl    int
		}
		plans := make([][]act, actors)
		for a := range plans {
			for k := 0; k < 1+rng.Intn(3); k++ {
				plans[a] = append(plans[a], act{rng.Intn(2) == 0, rng.Intn(nIds), cfg.Vec(rng), rng.Intn(3)})
			}
		}
		if pre && rng.Intn(2) == 0 {
			plans[0] = append([]act{{false, 7, nil, 0}}, plans[0]...) // someone removes the only item
		}
		var wg sync.WaitGroup
		var panicked atomic.Value
		start := make(chan struct{})
		for a := range plans {
			wg.Add(1)
			go func(plan []act) {
				defer wg.Done()
				defer func() {
					if r := recover(); r != nil {
						panicked.Store(fmt.Sprint(r))
					}
				}()
				<-start
				for _, op := range plan {
					if op.insert {
						idx.Insert(hx.Id(op.id), op.vec, index.Metadata{"v": "x"}, op.lvl)
					} else if op.id == 7 {
						idx.Remove(hx.Id(7))
					} else {
						idx.Remove(hx.Id(op.id))
					}
				}
			}(plans[a])
		}
		close(start)
		wg.Wait()
		rec.Count("duels", 1)
		ps := ""
		for a, plan := range plans {
			ps += fmt.Sprintf(" g%d:", a)
			for _, op := range plan {
				if op.insert {
					ps += fmt.Sprintf("ins(%d,L%d)", op.id, op.lvl)
				} else {
					ps += fmt.Sprintf("rem(%d)", op.id)
				}
			}
		}
		desc := fmt.Sprintf("%s round=%d ids=%d preloaded=%v plans=%s", desc0, round, nIds, pre, ps)
		fail := func(sym, detail string) {
			rec.Violation("duel:quiescent:"+sym, desc+": "+detail, map[string]interface{}{"run": c, "round": round, "seed": rec.Seed(), "desc": desc})
			bad = true
		}
		if p := panicked.Load(); p != nil {
			fail("panic", p.(string))
			break
		}
		live := hx.Ref{}
		for _, id := range []int{0, 1, 7} {
			if v, err := idx.Get(hx.Id(id)); err == nil {
				_, md, _, _ := idx.VerifGetItem(hx.Id(id))
				live[hx.Id(id)] = &hx.Item{Vec: v, Meta: md}
			}
		}
		d := idx.VerifDump()
		if idx.Len() != len(live) {
			fail("len-counter", fmt.Sprintf("Len()=%d but Get succeeds for %d ids", idx.Len(), len(live)))
		} else if sym, det := hx.DumpInvariants(d, sp); sym != "" {
			fail(sym, det)
		} else if diff := hx.ContentDiff(d, live); diff != "" {
			fail("contents", diff)
		} else {
			q := cfg.Vec(rng)
			res, err := hx.Search(idx, q, 5)
			if err != nil {
				fail("search-error", err.Error())
			} else if sym, det := hx.CheckSearch(sp, live, q, 5, res); sym != "" {
				fail("search-"+sym, det)
			} else if len(res) != len(live) {
				// not a verdict: no property promises that every stored item is
				// reachable after removals (an insert that races with the removal
				// of its only neighbour is left without links)
				rec.Count("duels_with_a_stored_item_not_reachable_by_search", 1)
			}
		}
		if d.HasEntrypoint {
			rec.Seen("duel_outcomes", fmt.Sprintf("items=%d", len(live)))
		} else {
			rec.Seen("duel_outcomes", "empty")
		}
	}
	rec.Count("yield_points_hit", int64(atomic.LoadUint64(&yctr)))
	rec.Seen("workloads", "duels")
	rec.Case(mon.Digest(desc0), true)
}

// bulk: an index of tens of thousands of items (every one of its 16 shards has held well over a thousand vertices)
// is emptied to a fraction by removers while inserters add fresh ids and readers read. Whatever an index does when
// it is large, or shrinks, happens here; the small-pool runs never get there. Oracles: the race detector, and at
// rest every acknowledged insert that was not removed is readable, every acknowledged removal is gone, and Len is
// their number.
func bulk(rec *mon.Recorder, c int) {
	rng := rec.Rand("c13-bulk", c)
	cfg := hx.Cfg{M: 4, Ef: 8, EfC: 8, Metric: 1, Dim: 3, MaxLevel: 2}
	n := rec.N(18000, 40000)
	desc := fmt.Sprintf("run=%d bulk items=%d cfg=%s", c, n, cfg.String())
	rec.Current(desc)
	idx, _ := cfg.New()
	for i := 0; i < n; i++ {
		lvl := 0
		if i%16 == 0 {
			lvl = 1 + i%2
		}
		if err := idx.Insert(hx.Id(i), cfg.Vec(rng), nil, lvl); err != nil {
			rec.Violation("bulk:setup-insert", fmt.Sprintf("%s: %v", desc, err), nil)
			return
		}
	}
	prev := runtime.GOMAXPROCS(16)
	defer runtime.GOMAXPROCS(prev)
	var wg sync.WaitGroup
	removedOK := make([]int32, n)
	var stop int32
	// removers: each takes a stripe of the preloaded ids, down to an eighth of the index
	removers := 6
	for g := 0; g < removers; g++ {
		wg.Add(1)
		go func(g int) {
			defer wg.Done()
			for i := g; i < n-n/8; i += removers {
				if err := idx.Remove(hx.Id(i)); err == nil {
					atomic.StoreInt32(&removedOK[i], 1)
				}
			}
		}(g)
	}
	// inserters: fresh ids, each inserted once; some are removed again by their own inserter
	inserters := 6
	perIns := n / 12
	insertedOK := make([]int32, inserters*perIns)
	for g := 0; g < inserters; g++ {
		wg.Add(1)
		go func(g int) {
			defer wg.Done()
			r := rand.New(rand.NewSource(int64(c)*131 + int64(g)))
			for j := 0; j < perIns && atomic.LoadInt32(&stop) == 0; j++ {
				k := g*perIns + j
				if err := idx.Insert(hx.Id(n+k), cfg.Vec(r), nil, 0); err == nil {
					atomic.StoreInt32(&insertedOK[k], 1)
					if j%5 == 0 {
						if err := idx.Remove(hx.Id(n + k)); err == nil {
							atomic.StoreInt32(&insertedOK[k], 2)
						}
					}
				}
			}
		}(g)
	}
	// readers
	var rwg sync.WaitGroup
	var abandoned int64
	for g := 0; g < 3; g++ {
		rwg.Add(1)
		go func(g int) {
			defer rwg.Done()
			r := rand.New(rand.NewSource(int64(c)*977 + int64(g)))
			for atomic.LoadInt32(&stop) == 0 {
				idx.Get(hx.Id(r.Intn(n + inserters*perIns)))
				idx.Len()
				if g == 0 {
					hx.Search(idx, cfg.Vec(r), 5)
				}
				if g >= 1 {
					// searches over thousands of vertices whose caller goes away in the middle of them
					for k := 0; k < 4; k++ {
						hx.SearchAbandoned(idx, cfg.Vec(r), 400, time.Duration(r.Intn(150))*time.Microsecond)
						atomic.AddInt64(&abandoned, 1)
					}
				}
			}
		}(g)
	}
	finished := make(chan struct{})
	go func() { wg.Wait(); atomic.StoreInt32(&stop, 1); rwg.Wait(); close(finished) }()
	select {
	case <-finished:
	case <-time.After(300 * time.Second):
		// wall clock is only the trigger; the verdict is structural (the same goroutines parked on index locks in two
		// dumps taken apart)
		d1 := lockWaiters()
		time.Sleep(2 * time.Second)
		d2 := lockWaiters()
		if len(d1) > 0 && fmt.Sprint(d1) == fmt.Sprint(d2) {
			rec.Violation("bulk:deadlock:goroutines-parked-on-index-locks", fmt.Sprintf("%s: %d goroutines parked on index locks in two dumps 2 s apart: %v", desc, len(d1), d1), nil)
		} else {
			rec.Inconclusive("bulk run did not finish in 300 s but no stable lock wait-set: " + desc)
		}
		rec.Close()
		os.Exit(0) // stuck goroutines cannot be reclaimed
	}
	rec.Count("searches_abandoned_by_their_caller", atomic.LoadInt64(&abandoned))
	// at rest
	want := 0
	for i := 0; i < n; i++ {
		_, err := idx.Get(hx.Id(i))
		gone := atomic.LoadInt32(&removedOK[i]) == 1
		if gone && err == nil {
			rec.Violation("bulk:quiescent:removed-item-still-readable", fmt.Sprintf("%s: preloaded id %d was removed (acknowledged) and Get still finds it", desc, i), nil)
			return
		}
		if !gone {
			if i < n-n/8 {
				rec.Violation("bulk:quiescent:remove-refused", fmt.Sprintf("%s: preloaded id %d: its one Remove was refused", desc, i), nil)
				return
			}
			if err != nil {
				rec.Violation("bulk:quiescent:stored-item-not-readable", fmt.Sprintf("%s: preloaded id %d was never removed and Get says %v", desc, i, err), nil)
				return
			}
			want++
		}
	}
	for k, st := range insertedOK {
		_, err := idx.Get(hx.Id(n + k))
		switch {
		case st == 1 && err != nil:
			rec.Violation("bulk:quiescent:acknowledged-insert-not-readable", fmt.Sprintf("%s: id %d was inserted (acknowledged) while the index was being emptied, and Get says %v", desc, n+k, err), nil)
			return
		case st == 2 && err == nil:
			rec.Violation("bulk:quiescent:removed-item-still-readable", fmt.Sprintf("%s: id %d was inserted and removed again (both acknowledged) and Get still finds it", desc, n+k), nil)
			return
		case st == 0:
			rec.Violation("bulk:quiescent:insert-of-a-fresh-id-refused", fmt.Sprintf("%s: id %d: its one Insert was refused", desc, n+k), nil)
			return
		}
		if st == 1 {
			want++
		}
	}
	if idx.Len() != want {
		rec.Violation("bulk:quiescent:len-counter", fmt.Sprintf("%s: Len()=%d but %d items are stored", desc, idx.Len(), want), nil)
		return
	}
	rec.Count("bulk_runs", 1)
	rec.Count("bulk_items_removed_under_concurrent_writers", int64(n-n/8))
	rec.Case(mon.Digest(desc), true)
}
