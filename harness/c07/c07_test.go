// C07 — search quality: exact on small collections, recall floor on large ones.
package c07

import (
	"fmt"
	"math"
	"math/rand"
	"testing"

	"github.com/marekgalovic/anndb/index"
	"github.com/marekgalovic/anndb/index/space"
	amath "github.com/marekgalovic/anndb/math"
	uuid "github.com/satori/go.uuid"
	"verif/harness/hx"
	"verif/harness/mon"
)

type ins struct {
	N     int       `json:"n"`
	Level int       `json:"level"`
	Vec   []float32 `json:"vec"`
}

func TestC07(t *testing.T) {
	rec := mon.Open("C07")
	defer rec.Finish(t)
	n := rec.N(20000, 100000)
	for c := 0; c < n; c++ {
		if rec.Mine(c) {
			exactCase(rec, c)
		}
	}
	colls := rec.N(2, 6)
	for c := 0; c < colls; c++ {
		if rec.Mine(c) {
			recallCase(rec, c)
		}
	}
}

func exactCase(rec *mon.Recorder, c int) {
	rng := rec.Rand("c07", c)
	cfg := hx.GenCfg(rng)
	cfg.MaxLevel = rng.Intn(7)
	n := 1 + rng.Intn(2*cfg.M+1) // n <= 2M+1: no level-0 link is ever dropped
	coverByEf := rng.Intn(3) > 0
	if coverByEf {
		cfg.Ef = n + rng.Intn(5)
	}
	style := rng.Intn(5) // 0 generic, 1 clustered, 2 collinear, 3 duplicates, 4 all on one level
	if c%8 == 6 && cfg.M >= 4 {
		// a smaller link budget for the upper levels only (the level-0 budget is not given and stays 2M): links above
		// level 0 are pruned, none at level 0 is, so the collection is still within the bound of the property
		cfg.Mmax = 1 + (c/8)%(cfg.M/2)
		rec.Count("exact_cases_with_a_smaller_upper_level_budget", 1)
	}
	idx, sp := cfg.New()
	ref := hx.Ref{}
	var hist []ins
	base := cfg.Vec(rng)
	dir := cfg.Vec(rng)
	for i := 0; i < n; i++ {
		var v amath.Vector
		switch style {
		case 1:
			v = make(amath.Vector, cfg.Dim)
			off := cfg.Vec(rng)
			for j := range v {
				v[j] = base[j]*float32(1+rng.Intn(3)) + off[j]*0.01
			}
		case 2:
			v = make(amath.Vector, cfg.Dim)
			tt := float32(rng.Intn(9) + 1)
			for j := range v {
				v[j] = base[j] + tt*dir[j]
			}
		case 3:
			if i > 0 && rng.Intn(2) == 0 {
				v = append(amath.Vector(nil), hist[rng.Intn(len(hist))].Vec...)
			} else {
				v = cfg.Vec(rng)
			}
		default:
			v = cfg.Vec(rng)
		}
		if cfg.Metric == 3 {
			nz := false
			for _, x := range v {
				if x != 0 {
					nz = true
				}
			}
			if !nz {
				v = cfg.Vec(rng)
			}
		}
		lvl := 0
		if cfg.MaxLevel > 0 {
			lvl = rng.Intn(cfg.MaxLevel + 1)
		}
		if style == 4 {
			lvl = cfg.MaxLevel
		}
		id := hx.Id(i)
		if err := idx.Insert(id, v, nil, lvl); err != nil {
			rec.Violation("exact:insert-error", err.Error(), map[string]interface{}{"case": c, "cfg": cfg.String(), "hist": hist})
			return
		}
		ref[id] = &hx.Item{Vec: v}
		hist = append(hist, ins{i, lvl, v})
	}
	mode := "simple"
	if cfg.Heuristic {
		mode = fmt.Sprintf("heuristic-x%v-k%v", cfg.Extend, cfg.Keep)
	}
	searches := 0
	for qn := 0; qn < 4; qn++ {
		var q amath.Vector
		if qn == 0 {
			q = hist[rng.Intn(n)].Vec
		} else {
			q = cfg.Vec(rng)
		}
		bf := hx.BruteForce(sp, ref, q)
		for k := 1; k <= n+1; k++ {
			if !coverByEf && k < n {
				continue // the beam covers the collection only when max(ef,k) >= n
			}
			res, err := hx.Search(idx, q, uint(k))
			searches++
			want := k
			if want > n {
				want = n
			}
			sym, detail := "", ""
			if err != nil {
				sym, detail = "error", err.Error()
			} else if s, d := hx.CheckSearch(sp, ref, q, uint(k), res); s != "" {
				sym, detail = s, d
			} else if len(res) != want {
				sym, detail = "short", fmt.Sprintf("%d items, want %d (n=%d k=%d ef=%d)", len(res), want, n, k, cfg.Ef)
			} else {
				for i := range res {
					if math.Float32bits(res[i].Score) != math.Float32bits(bf[i].Score) {
						sym, detail = "not-nearest", fmt.Sprintf("pos %d score %v, brute force %v (n=%d k=%d ef=%d)", i, res[i].Score, bf[i].Score, n, k, cfg.Ef)
						break
					}
				}
			}
			if sym != "" {
				rec.Violation(fmt.Sprintf("exact:%s:%s", sym, mode), detail,
					map[string]interface{}{"case": c, "seed": rec.Seed(), "cfg": cfg.String(), "inserts": hist, "query": q, "k": k})
				rec.Case(mon.Digest(cfg.String(), hist), true)
				return
			}
		}
	}
	// the collection is static now: the same questions asked by several goroutines at once have the same answers
	if c%8 == 3 && n >= 3 && (coverByEf || true) {
		var qs []amath.Vector
		for i := 0; i < 4; i++ {
			qs = append(qs, cfg.Vec(rng))
		}
		if sym, detail, done := hx.ConcurrentSearches(idx, sp, ref, qs, uint(n), 6, 24, true); sym != "" {
			rec.Violation(fmt.Sprintf("exact:%s-under-concurrent-searches:%s", sym, mode), detail,
				map[string]interface{}{"case": c, "seed": rec.Seed(), "cfg": cfg.String(), "inserts": hist, "k": n})
			rec.Case(mon.Digest(cfg.String(), hist), true)
			return
		} else {
			rec.Count("exact_concurrent_searches", int64(done))
		}
	}
	rec.Count("exact_searches", int64(searches))
	rec.Case(mon.Digest(cfg.String(), hist), n >= 3)
	if rec.WantSample() && n <= 4 && n >= 3 {
		rec.Sample(map[string]interface{}{"case": c, "cfg": cfg.String(), "inserts": hist})
	}
}

func recallCase(rec *mon.Recorder, c int) {
	rng := rec.Rand("c07-recall", c)
	rand.Seed(rng.Int63()) // index.RandomLevel draws from the global source
	dims := []int{16, 8, 32, 64, 16, 32}
	sizes := []int{2000, 3000, 4000, 5000, 2500, 3500}
	dim, n := dims[c%len(dims)], sizes[c%len(sizes)]
	normal := c%2 == 1
	metric := 1 + c%3
	var sp space.Space
	switch metric {
	case 1:
		sp = space.NewEuclidean()
	case 2:
		sp = space.NewManhattan()
	default:
		sp = space.NewCosine()
	}
	idx := index.NewHnsw(uint(dim), sp) // default parameters
	ref := hx.Ref{}
	gen := func() amath.Vector {
		v := make(amath.Vector, dim)
		for i := range v {
			if normal {
				v[i] = float32(rng.NormFloat64())
			} else {
				v[i] = rng.Float32()
			}
		}
		return v
	}
	for i := 0; i < n; i++ {
		id, v := hx.Id(i), gen()
		if err := idx.Insert(id, v, nil, idx.RandomLevel()); err != nil {
			rec.Violation("recall:insert-error", err.Error(), nil)
			return
		}
		ref[id] = &hx.Item{Vec: v}
	}
	const K, Q = 10, 200
	var sum float64
	for qi := 0; qi < Q; qi++ {
		q := gen()
		res, err := hx.Search(idx, q, K)
		if err != nil {
			rec.Violation("recall:search-error", err.Error(), nil)
			return
		}
		if s, d := hx.CheckSearch(sp, ref, q, K, res); s != "" {
			rec.Violation("recall:"+s, d, nil)
			return
		}
		bf := hx.BruteForce(sp, ref, q)
		thr := bf[K-1].Score
		truth := map[uuid.UUID]bool{}
		for _, b := range bf {
			if b.Score <= thr {
				truth[b.Id] = true
			}
		}
		hit := 0
		for _, r := range res {
			if truth[r.Id] {
				hit++
			}
		}
		sum += float64(hit) / K
	}
	recall := sum / Q
	desc := fmt.Sprintf("n=%d dim=%d metric=%d normal=%v", n, dim, metric, normal)
	rec.Count("recall_collections", 1)
	rec.Count("recall_queries", Q)
	rec.Max("min_recall_x1000_negated", -int64(recall*1000))
	rec.Seen("recall", fmt.Sprintf("%s recall@10=%.3f", desc, recall))
	if recall < 0.8 {
		// the signature names the configuration class and a coarse band, so that a
		// recorded shortfall of one class does not hide another class or a collapse
		dist := "uniform"
		if normal {
			dist = "normal"
		}
		band := "0.65-0.8"
		if recall < 0.65 {
			band = "below-0.65"
		}
		rec.Violation(fmt.Sprintf("recall:below-0.8:dim%d:%s:metric%d:band-%s", dim, dist, metric, band), fmt.Sprintf("%s mean recall@10 = %.3f", desc, recall),
			map[string]interface{}{"collection": c, "seed": rec.Seed(), "desc": desc, "recall": recall})
	}
	rec.Case(mon.Digest("recall", desc, c), true)
}
