// Package hx holds what the index-level monitors share: seeded configuration,
// vector and history generators, the reference map, and the search oracle.
package hx

import (
	"time"
	"sync/atomic"
	"context"
	"encoding/binary"
	"fmt"
	"math"
	"math/rand"
	"sort"

	"github.com/marekgalovic/anndb/index"
	"github.com/marekgalovic/anndb/index/space"
	amath "github.com/marekgalovic/anndb/math"
	uuid "github.com/satori/go.uuid"
)

type Cfg struct {
	M, Ef, EfC int
	Heuristic  bool
	Extend     bool
	Keep       bool
	Metric     int // 1 euclidean, 2 manhattan, 3 cosine
	Dim        int
	Ints       bool // small-integer coordinates (ties, coincident points)
	MaxLevel   int
	Mmax       int // link budget of the upper levels when it differs from M (0: not given, the index derives it)
}

func (c Cfg) String() string {
	s := fmt.Sprintf("M%d ef%d efc%d h%v x%v k%v m%d d%d i%v L%d", c.M, c.Ef, c.EfC, c.Heuristic, c.Extend, c.Keep, c.Metric, c.Dim, c.Ints, c.MaxLevel)
	if c.Mmax > 0 {
		s += fmt.Sprintf(" Mmax%d", c.Mmax)
	}
	return s
}

func (c Cfg) Space() space.Space {
	switch c.Metric {
	case 1:
		return space.NewEuclidean()
	case 2:
		return space.NewManhattan()
	}
	return space.NewCosine()
}

func (c Cfg) Options() []index.HnswOption {
	o := []index.HnswOption{index.HnswM(c.M), index.HnswEf(c.Ef), index.HnswEfConstruction(c.EfC)}
	if c.Heuristic {
		o = append(o, index.HnswSearchAlgorithm(index.HnswSearchHeuristic),
			index.HnswHeuristicExtendCandidates(c.Extend), index.HnswHeuristicKeepPruned(c.Keep))
	}
	if c.Mmax > 0 {
		o = append(o, index.HnswMmax(c.Mmax))
	}
	return o
}

func (c Cfg) New() (*index.Hnsw, space.Space) {
	sp := c.Space()
	return index.NewHnsw(uint(c.Dim), sp, c.Options()...), sp
}

func GenCfg(rng *rand.Rand) Cfg {
	c := Cfg{
		M: 2 + rng.Intn(15), Ef: 1 + rng.Intn(40), EfC: 1 + rng.Intn(40),
		Heuristic: rng.Intn(2) == 0, Metric: 1 + rng.Intn(3), Dim: 1 + rng.Intn(16),
		Ints: rng.Intn(3) == 0, MaxLevel: rng.Intn(6),
	}
	if rng.Intn(3) == 0 {
		c.M = 2 + rng.Intn(3) // small M forces pruning and asymmetric links
	}
	if c.Heuristic {
		c.Extend = rng.Intn(2) == 0
		c.Keep = rng.Intn(2) == 0
	}
	if c.Metric == 3 && c.Dim == 1 {
		c.Dim = 2
	}
	// About one configuration in sixteen is wide (up to 2500 components: embedding-sized vectors, block boundaries
	// of any buffered vector codec, every unrolled loop of the kernels). Chosen from the draws above, without a draw
	// of its own, so that all other cases stay what they were.
	if (c.M*31+c.Ef*7+c.EfC*3+c.MaxLevel)%16 == 0 {
		c.Dim = WideDims[(c.Ef*5+c.M+c.EfC)%len(WideDims)]
	}
	return c
}

var WideDims = []int{17, 24, 31, 32, 33, 64, 100, 128, 255, 256, 257, 1023, 1024, 1025, 1536, 2500}

// Id derives a well-mixed deterministic id from a small integer.
func Id(n int) uuid.UUID {
	var u uuid.UUID
	x := uint64(n)*0x9e3779b97f4a7c15 + 0x1234567
	x ^= x >> 29
	binary.LittleEndian.PutUint64(u[:8], x*0xbf58476d1ce4e5b9)
	binary.LittleEndian.PutUint64(u[8:], uint64(n))
	return u
}

// IdNum recovers n from Id(n).
func IdNum(u uuid.UUID) int { return int(binary.LittleEndian.Uint64(u[8:])) }

// Vec generates a vector; under cosine the zero vector is excluded (C12 owns
// hostile numbers).
func (c Cfg) Vec(rng *rand.Rand) amath.Vector {
	for {
		v := make(amath.Vector, c.Dim)
		nz := false
		for i := range v {
			if c.Ints {
				v[i] = float32(rng.Intn(5) - 2)
			} else {
				v[i] = float32(rng.NormFloat64())
			}
			if v[i] != 0 {
				nz = true
			}
		}
		if nz || c.Metric != 3 {
			return v
		}
	}
}

func GenMeta(rng *rand.Rand) index.Metadata {
	switch rng.Intn(4) {
	case 0:
		return nil
	case 1:
		return index.Metadata{}
	}
	m := index.Metadata{}
	for i, n := 0, 1+rng.Intn(3); i < n; i++ {
		m[fmt.Sprintf("k%d", rng.Intn(4))] = fmt.Sprintf("v%d", rng.Intn(100))
	}
	return m
}

type Item struct {
	Vec  amath.Vector
	Meta index.Metadata
}

// Ref is the reference map id -> (vector, metadata).
type Ref map[uuid.UUID]*Item

func MetaEqual(a, b index.Metadata) bool {
	if len(a) != len(b) {
		return false
	}
	for k, v := range a {
		if w, ok := b[k]; !ok || w != v {
			return false
		}
	}
	return true
}

func VecEqual(a, b amath.Vector) bool {
	if len(a) != len(b) {
		return false
	}
	for i := range a {
		if math.Float32bits(a[i]) != math.Float32bits(b[i]) {
			return false
		}
	}
	return true
}

// CheckSearch is C01's oracle for one result. It returns "" when the result
// is admissible, otherwise a symptom and a detail.
func CheckSearch(sp space.Space, ref Ref, query amath.Vector, k uint, res index.SearchResult) (string, string) {
	if uint(len(res)) > k {
		return "more-than-k", fmt.Sprintf("%d items for k=%d", len(res), k)
	}
	if len(res) == 0 && len(ref) > 0 && k >= 1 {
		return "empty-on-nonempty", fmt.Sprintf("empty result, %d items stored, k=%d", len(ref), k)
	}
	seen := map[uuid.UUID]bool{}
	for i, it := range res {
		if seen[it.Id] {
			return "duplicate-id", fmt.Sprintf("id %s twice", it.Id)
		}
		seen[it.Id] = true
		r, ok := ref[it.Id]
		if !ok {
			return "removed-item", fmt.Sprintf("pos %d id %s is not stored", i, it.Id)
		}
		if !MetaEqual(r.Meta, it.Metadata) {
			return "wrong-metadata", fmt.Sprintf("id %s metadata %v want %v", it.Id, it.Metadata, r.Meta)
		}
		want := sp.Distance(query, r.Vec)
		if math.Float32bits(want) != math.Float32bits(it.Score) {
			return "wrong-score", fmt.Sprintf("id %s score %v want %v", it.Id, it.Score, want)
		}
		if i > 0 && res[i-1].Score > it.Score {
			return "not-ascending", fmt.Sprintf("pos %d score %v after %v", i, it.Score, res[i-1].Score)
		}
	}
	return "", ""
}

// Classify explains a C01 failure from the index dump (classification only).
func Classify(d *index.VerifDump, nLive int) string {
	switch {
	case !d.HasEntrypoint && nLive > 0:
		return "entrypoint-nil"
	case d.HasEntrypoint && d.EntrypointDeleted:
		return "entrypoint-tombstoned"
	case d.HasEntrypoint && !d.EntrypointInMap:
		return "entrypoint-stale"
	}
	return "entrypoint-live"
}

// BruteForce returns the reference ranking (ascending score, ties by id).
type Scored struct {
	Id    uuid.UUID
	Score float32
}

func BruteForce(sp space.Space, ref Ref, query amath.Vector) []Scored {
	out := make([]Scored, 0, len(ref))
	for id, it := range ref {
		out = append(out, Scored{id, sp.Distance(query, it.Vec)})
	}
	sort.Slice(out, func(i, j int) bool {
		if out[i].Score != out[j].Score {
			return out[i].Score < out[j].Score
		}
		return string(out[i].Id[:]) < string(out[j].Id[:])
	})
	return out
}

func Search(idx *index.Hnsw, q amath.Vector, k uint) (index.SearchResult, error) {
	return idx.Search(context.Background(), q, k)
}

// SearchAbandoned runs a search whose caller goes away while it runs: its context is cancelled after `after` (0: at
// once, from another goroutine). The index may finish the search or give it up with the context's error; either is
// fine - what matters to the callers of this helper is what the index is like afterwards. The boolean says whether
// the search was given up.
func SearchAbandoned(idx *index.Hnsw, q amath.Vector, k uint, after time.Duration) (index.SearchResult, bool, error) {
	ctx, cancel := context.WithCancel(context.Background())
	defer cancel()
	if after <= 0 {
		go cancel()
	} else {
		t := time.AfterFunc(after, cancel)
		defer t.Stop()
	}
	res, err := idx.Search(ctx, q, k)
	if err != nil && (err == context.Canceled || err == context.DeadlineExceeded) {
		return nil, true, nil
	}
	return res, false, err
}

// DumpInvariants checks the structural invariants that the properties state on
// a quiescent index: entry point live and a member iff non-empty; no stored
// vertex flagged deleted; link levels within both endpoints' levels; cached
// distance == true distance for links between live current vertices.
func DumpInvariants(d *index.VerifDump, sp space.Space) (string, string) {
	n := len(d.Vertices)
	if uint64(n) != d.Len {
		return "len-counter", fmt.Sprintf("Len counter %d, %d vertices stored", d.Len, n)
	}
	if n > 0 && !d.HasEntrypoint {
		return "entrypoint-nil", fmt.Sprintf("%d items but no entry point", n)
	}
	if d.HasEntrypoint {
		if d.EntrypointDeleted {
			return "entrypoint-tombstoned", "entry point is a removed vertex"
		}
		if !d.EntrypointInMap {
			return "entrypoint-stale", "entry point is not the stored vertex of its id"
		}
	}
	for id, v := range d.Vertices {
		if v.Deleted {
			return "stored-vertex-deleted", fmt.Sprintf("vertex %s stored but flagged deleted", id)
		}
		for l, links := range v.Links {
			for _, ln := range links {
				if ln.ToDeleted || !ln.ToCurrent {
					continue // dangling links to tombstones are skipped by traversal
				}
				w := d.Vertices[ln.To]
				if w == nil {
					return "link-to-unknown", fmt.Sprintf("%s -> %s not stored", id, ln.To)
				}
				if l > w.Level {
					return "link-above-level", fmt.Sprintf("%s -> %s at level %d, target level %d", id, ln.To, l, w.Level)
				}
			}
		}
	}
	return "", ""
}

// BuildState drives a seeded insert/remove/update history and returns the
// resulting index, the reference map and a printable op list.
func BuildState(rng *rand.Rand, cfg Cfg, steps, universe int) (*index.Hnsw, space.Space, Ref, []string) {
	idx, sp := cfg.New()
	ref := Ref{}
	var ops []string
	for s := 0; s < steps; s++ {
		n := rng.Intn(universe)
		id := Id(n)
		switch r := rng.Intn(10); {
		case r < 6:
			lvl := 0
			if cfg.MaxLevel > 0 {
				lvl = rng.Intn(rng.Intn(cfg.MaxLevel+1) + 1)
			}
			v, m := cfg.Vec(rng), GenMeta(rng)
			if err := idx.Insert(id, v, m, lvl); err == nil {
				ref[id] = &Item{Vec: v, Meta: m}
				ops = append(ops, fmt.Sprintf("ins %d L%d", n, lvl))
			}
		case r < 9:
			if rng.Intn(3) == 0 {
				if d := idx.VerifDump(); d.HasEntrypoint {
					id = d.Entrypoint
				}
			}
			if err := idx.Remove(id); err == nil {
				delete(ref, id)
				ops = append(ops, fmt.Sprintf("rem %d", IdNum(id)))
			}
		default:
			if old, ok := ref[id]; ok {
				_, _, lvl, _ := idx.VerifGetItem(id)
				v := cfg.Vec(rng)
				idx.Remove(id)
				idx.Insert(id, v, old.Meta, lvl)
				ref[id] = &Item{Vec: v, Meta: old.Meta}
				ops = append(ops, fmt.Sprintf("upd %d", n))
			}
		}
	}
	return idx, sp, ref, ops
}

// ContentDiff compares the contents (ids, bit-identical vectors, metadata) of
// an index dump with a reference map.
func ContentDiff(d *index.VerifDump, ref Ref) string {
	if len(d.Vertices) != len(ref) {
		return fmt.Sprintf("%d items stored, reference has %d", len(d.Vertices), len(ref))
	}
	for id, it := range ref {
		v := d.Vertices[id]
		if v == nil {
			return fmt.Sprintf("id %s missing", id)
		}
		if !VecEqual(v.Vector, it.Vec) {
			return fmt.Sprintf("id %s vector %v want %v", id, v.Vector, it.Vec)
		}
		if !MetaEqual(v.Metadata, it.Meta) {
			return fmt.Sprintf("id %s metadata differs", id)
		}
	}
	return ""
}

// RawBytes is what the raw byte counter must equal: sum over live items of
// 16 + 4*dim + sum(|k|+|v|).
func RawBytes(ref Ref) uint64 {
	var n uint64
	for _, it := range ref {
		n += 16 + 4*uint64(len(it.Vec))
		for k, v := range it.Meta {
			n += uint64(len(k) + len(v))
		}
	}
	return n
}

// DumpDiff compares two dumps completely: contents, levels, live links with
// cached distances, entry point, counters.
func DumpDiff(a, b *index.VerifDump) string {
	if a.HasEntrypoint != b.HasEntrypoint || (a.HasEntrypoint && a.Entrypoint != b.Entrypoint) {
		return fmt.Sprintf("entry point %v/%s vs %v/%s", a.HasEntrypoint, a.Entrypoint, b.HasEntrypoint, b.Entrypoint)
	}
	if len(a.Vertices) != len(b.Vertices) {
		return fmt.Sprintf("%d vs %d vertices", len(a.Vertices), len(b.Vertices))
	}
	for id, v := range a.Vertices {
		w := b.Vertices[id]
		if w == nil {
			return fmt.Sprintf("id %s missing", id)
		}
		if !VecEqual(v.Vector, w.Vector) {
			return fmt.Sprintf("id %s vector differs", id)
		}
		if !MetaEqual(v.Metadata, w.Metadata) {
			return fmt.Sprintf("id %s metadata differs (%d vs %d keys)", id, len(v.Metadata), len(w.Metadata))
		}
		if v.Level != w.Level {
			return fmt.Sprintf("id %s level %d vs %d", id, v.Level, w.Level)
		}
		if w.Deleted {
			return fmt.Sprintf("id %s flagged deleted after load", id)
		}
		for l := 0; l <= v.Level; l++ {
			la := map[uuid.UUID]uint32{}
			for _, ln := range v.Links[l] {
				if !ln.ToDeleted {
					la[ln.To] = math.Float32bits(ln.Distance)
				}
			}
			if l >= len(w.Links) {
				return fmt.Sprintf("id %s lacks level %d", id, l)
			}
			n := 0
			for _, ln := range w.Links[l] {
				if ln.ToDeleted || !ln.ToCurrent {
					return fmt.Sprintf("id %s level %d: link to a vertex that is not stored", id, l)
				}
				if d, ok := la[ln.To]; !ok || d != math.Float32bits(ln.Distance) {
					return fmt.Sprintf("id %s level %d: link to %s differs", id, l, ln.To)
				}
				n++
			}
			if n != len(la) {
				return fmt.Sprintf("id %s level %d: %d links vs %d", id, l, len(la), n)
			}
		}
	}
	if a.Len != b.Len {
		return fmt.Sprintf("Len counter %d vs %d", a.Len, b.Len)
	}
	if a.RawBytesSize != b.RawBytesSize {
		return fmt.Sprintf("byte counter %d vs %d", a.RawBytesSize, b.RawBytesSize)
	}
	return ""
}

// ConcurrentSearches runs the given queries from several goroutines at once on an index nobody writes to and judges
// every answer by the sequential search oracle (and, when exact is set, by the bit-exact score sequence of brute
// force): what a search returns must not depend on other searches running at the same time.
func ConcurrentSearches(idx *index.Hnsw, sp space.Space, ref Ref, queries []amath.Vector, k uint, goroutines, reps int, exact bool) (sym, detail string, done int) {
	type verdict struct{ sym, detail string }
	out := make(chan verdict, goroutines)
	var n int64
	for g := 0; g < goroutines; g++ {
		go func(g int) {
			for r := 0; r < reps; r++ {
				q := queries[(g+r)%len(queries)]
				res, err := Search(idx, q, k)
				atomic.AddInt64(&n, 1)
				if err != nil {
					out <- verdict{"error", err.Error()}
					return
				}
				if s, d := CheckSearch(sp, ref, q, k, res); s != "" {
					out <- verdict{s, d}
					return
				}
				if exact {
					bf := BruteForce(sp, ref, q)
					want := int(k)
					if want > len(bf) {
						want = len(bf)
					}
					if len(res) != want {
						out <- verdict{"short", fmt.Sprintf("%d items, want %d", len(res), want)}
						return
					}
					for i := range res {
						if math.Float32bits(res[i].Score) != math.Float32bits(bf[i].Score) {
							out <- verdict{"not-nearest", fmt.Sprintf("pos %d score %v, brute force %v", i, res[i].Score, bf[i].Score)}
							return
						}
					}
				}
			}
			out <- verdict{}
		}(g)
	}
	for g := 0; g < goroutines; g++ {
		if v := <-out; v.sym != "" && sym == "" {
			sym, detail = v.sym, v.detail
		}
	}
	return sym, detail, int(atomic.LoadInt64(&n))
}
