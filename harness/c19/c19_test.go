// C19 — priority queues pop in order; reversing yields an independent queue.
//
// Oracle: a sorted-multiset model per live queue. Every generated sequence keeps
// a pool of queues alive; Reverse adds its result to the pool and BOTH queues
// keep being used, which is the shape index.selectNeighborsHeuristic has.
package c19

import (
	"math"
	"fmt"
	"sort"
	"testing"

	"github.com/marekgalovic/anndb/utils"
	"verif/harness/mon"
)

type mitem struct {
	prio float32
	id   int
}

type mq struct {
	q        utils.PriorityQueue
	max      bool
	items    map[int]float32 // id -> priority
	reversed bool            // took part in a Reverse (as source or result)
	name     string
}

func (m *mq) best() (float32, bool) {
	first := true
	var b float32
	for _, p := range m.items {
		if first || (m.max && p > b) || (!m.max && p < b) {
			b, first = p, false
		}
	}
	return b, !first
}

type op struct {
	Q    int     `json:"q"`
	Op   string  `json:"op"`
	Prio float32 `json:"prio,omitempty"`
	Id   int     `json:"id,omitempty"`
}

func TestC19(t *testing.T) {
	rec := mon.Open("C19")
	defer rec.Finish(t)
	n := rec.N(100000, 2000000)
	for c := 0; c < n; c++ {
		if !rec.Mine(c) {
			continue
		}
		runCase(rec, c)
	}
}

func runCase(rec *mon.Recorder, c int) {
	rng := rec.Rand("c19", c)
	var ops []op
	var pool []*mq
	nextId := 1
	// priorities: small tie-rich set, or floats
	tieRich := rng.Intn(2) == 0
	// every fourth tie-rich case draws from the edges of the non-negative floats instead of small integers:
	// negative zero (equal to zero, accepted by Push), zero, the smallest subnormal, one, the largest finite value, +Inf (what an overflowing distance is)
	edges := []float32{float32(math.Copysign(0, -1)), 0, math.SmallestNonzeroFloat32, 1, math.MaxFloat32, float32(math.Inf(1))}
	// every fourth tie-rich case (the others of them) draws from a cluster of six neighbouring float32 values:
	// distinct priorities that differ in the last bit (what distances of near-duplicate vectors look like)
	clusterBase := []float32{1, 0.1, 1e-30, 16777216, 3e38, math.SmallestNonzeroFloat32 * 3}[(c/4)%6]
	var cluster [6]float32
	cluster[0] = clusterBase
	for i := 1; i < len(cluster); i++ {
		cluster[i] = math.Nextafter32(cluster[i-1], float32(math.Inf(1)))
	}
	prio := func() float32 {
		if tieRich {
			v := rng.Intn(6)
			if c%4 == 1 {
				return edges[v]
			}
			if c%4 == 3 {
				return cluster[v]
			}
			return float32(v)
		}
		return rng.Float32() * 100
	}
	// a queue is built empty, or (every third case) from 1..7 initial items
	// handed to the constructor in arbitrary order
	newq := func(max bool, initial int) *mq {
		m := &mq{max: max, items: map[int]float32{}, name: fmt.Sprintf("q%d", len(pool))}
		init := make([]*utils.PriorityQueueItem, 0, initial+8) // the caller's list, with room to spare
		for i := 0; i < initial; i++ {
			p := prio()
			id := nextId
			nextId++
			init = append(init, utils.NewPriorityQueueItem(p, id))
			m.items[id] = p
			ops = append(ops, op{Q: len(pool), Op: "construct-with", Prio: p, Id: id})
		}
		if max {
			m.q = utils.NewMaxPriorityQueue(init...)
		} else {
			m.q = utils.NewMinPriorityQueue(init...)
		}
		pool = append(pool, m)
		if initial >= 2 && c%6 == 5 {
			// the caller goes on using its list: a second queue of the other kind is built from the same
			// items (and a third from a prefix of them); every queue holds its own items from then on
			for _, upto := range []int{initial, 1 + initial/2} {
				t := &mq{max: !max, items: map[int]float32{}, name: fmt.Sprintf("q%d", len(pool))}
				for _, it := range init[:upto] {
					t.items[it.Value().(int)] = it.Priority()
					ops = append(ops, op{Q: len(pool), Op: "construct-with-the-same-list", Prio: it.Priority(), Id: it.Value().(int)})
				}
				if t.max {
					t.q = utils.NewMaxPriorityQueue(init[:upto]...)
				} else {
					t.q = utils.NewMinPriorityQueue(init[:upto]...)
				}
				pool = append(pool, t)
			}
			rec.Count("queues_constructed_from_one_shared_list", 1)
		}
		return m
	}
	initial := 0
	if c%3 == 2 {
		initial = 1 + rng.Intn(7)
	}
	newq(rng.Intn(2) == 0, initial)
	if initial > 0 {
		rec.Count("queues_constructed_with_items", 1)
	}
	steps := 5 + rng.Intn(60)
	if rng.Intn(20) == 0 {
		steps = 200 + rng.Intn(200)
	}
	reverses, pops, violated := 0, 0, false
	fail := func(m *mq, sym, detail string) {
		if violated {
			return
		}
		violated = true
		class := "heap"
		if m.reversed {
			class = "reverse-aliasing"
		}
		rec.Violation(fmt.Sprintf("%s:%s", class, sym), detail, map[string]interface{}{"case": c, "seed": rec.Seed(), "ops": ops})
	}
	checkAll := func() {
		// operations on one queue never change another's Len or contents
		for _, m := range pool {
			if m.q.Len() != len(m.items) {
				fail(m, "len", fmt.Sprintf("%s Len()=%d model=%d", m.name, m.q.Len(), len(m.items)))
				return
			}
		}
	}
	for s := 0; s < steps && !violated; s++ {
		qi := rng.Intn(len(pool))
		m := pool[qi]
		switch k := rng.Intn(20); {
		case k < 8: // push
			p := prio()
			id := nextId
			nextId++
			ops = append(ops, op{Q: qi, Op: "push", Prio: p, Id: id})
			m.q.Push(utils.NewPriorityQueueItem(p, id))
			m.items[id] = p
		case k < 14: // pop
			if len(m.items) == 0 {
				continue
			}
			ops = append(ops, op{Q: qi, Op: "pop"})
			if m.q.Len() == 0 {
				fail(m, "len", fmt.Sprintf("%s empty but model has %d", m.name, len(m.items)))
				break
			}
			it := m.q.Pop()
			pops++
			id, _ := it.Value().(int)
			want, _ := m.best()
			mp, ok := m.items[id]
			if !ok {
				fail(m, "pop-foreign-item", fmt.Sprintf("%s popped id %d (prio %v) which it does not hold", m.name, id, it.Priority()))
				break
			}
			if mp != it.Priority() {
				fail(m, "pop-priority-changed", fmt.Sprintf("%s popped id %d prio %v, pushed with %v", m.name, id, it.Priority(), mp))
				break
			}
			if it.Priority() != want {
				fail(m, "pop-out-of-order", fmt.Sprintf("%s (max=%v) popped prio %v while holding %v", m.name, m.max, it.Priority(), want))
				break
			}
			delete(m.items, id)
		case k < 16: // peek
			if len(m.items) == 0 || m.q.Len() == 0 {
				continue
			}
			ops = append(ops, op{Q: qi, Op: "peek"})
			it := m.q.Peek()
			want, _ := m.best()
			if it.Priority() != want {
				fail(m, "peek-out-of-order", fmt.Sprintf("%s (max=%v) peeked prio %v while holding %v", m.name, m.max, it.Priority(), want))
			}
		case k < 18: // ToSlice / Values multiset
			ops = append(ops, op{Q: qi, Op: "toslice"})
			sl := m.q.ToSlice()
			vals := m.q.Values()
			if len(sl) != len(m.items) || len(vals) != len(m.items) {
				fail(m, "contents", fmt.Sprintf("%s ToSlice=%d Values=%d model=%d", m.name, len(sl), len(vals), len(m.items)))
				break
			}
			seen := map[int]bool{}
			for i, it := range sl {
				id, _ := it.Value().(int)
				if p, ok := m.items[id]; !ok || p != it.Priority() || seen[id] || vals[i] != it.Value() {
					fail(m, "contents", fmt.Sprintf("%s ToSlice item id=%d prio=%v not as in model", m.name, id, it.Priority()))
					break
				}
				seen[id] = true
			}
		default: // reverse
			if len(pool) >= 4 {
				continue
			}
			ops = append(ops, op{Q: qi, Op: "reverse"})
			r := &mq{q: m.q.Reverse(), max: !m.max, items: map[int]float32{}, reversed: true, name: fmt.Sprintf("q%d", len(pool))}
			for id, p := range m.items {
				r.items[id] = p
			}
			m.reversed = true
			pool = append(pool, r)
			reverses++
		}
		checkAll()
	}
	// drain every queue: exactly the model's multiset, in order
	for qi, m := range pool {
		if violated {
			break
		}
		ops = append(ops, op{Q: qi, Op: "drain"})
		var want []float32
		for _, p := range m.items {
			want = append(want, p)
		}
		sort.Slice(want, func(i, j int) bool {
			if m.max {
				return want[i] > want[j]
			}
			return want[i] < want[j]
		})
		for i := 0; i < len(want); i++ {
			if m.q.Len() == 0 {
				fail(m, "len", fmt.Sprintf("%s drained after %d of %d", m.name, i, len(want)))
				break
			}
			it := m.q.Pop()
			pops++
			id, _ := it.Value().(int)
			if it.Priority() != want[i] {
				fail(m, "pop-out-of-order", fmt.Sprintf("%s drain pos %d prio %v want %v", m.name, i, it.Priority(), want[i]))
				break
			}
			if p, ok := m.items[id]; !ok || p != it.Priority() {
				fail(m, "pop-foreign-item", fmt.Sprintf("%s drain popped id %d not held", m.name, id))
				break
			}
			delete(m.items, id)
		}
		if !violated && m.q.Len() != 0 {
			fail(m, "len", fmt.Sprintf("%s has %d items left after drain", m.name, m.q.Len()))
		}
		checkAll()
	}
	rec.Count("pops_checked", int64(pops))
	rec.Count("reverses", int64(reverses))
	if reverses > 0 {
		rec.Count("cases_with_reverse", 1)
	}
	nontrivial := pops >= 3
	rec.Case(mon.Digest(ops), nontrivial)
	if rec.WantSample() && reverses > 0 && len(ops) < 30 {
		rec.Sample(map[string]interface{}{"case": c, "ops": ops})
	}
}
