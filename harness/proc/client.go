package proc

import (
	"context"
	"encoding/json"
	"errors"
	"fmt"
	"os"
	"path/filepath"
	"syscall"
	"time"

	"github.com/marekgalovic/anndb/index"
	amath "github.com/marekgalovic/anndb/math"
	pb "github.com/marekgalovic/anndb/protobuf"
	uuid "github.com/satori/go.uuid"
)

// Client drives one dataset of a real server through the public gRPC API; it
// has the method set of storage.Dataset's write half (cw.Writer).
type Client struct {
	S  *Server
	Ds uuid.UUID
}

func (c *Client) dm() (pb.DataManagerClient, error) {
	cc := c.S.Conn()
	if cc == nil {
		return nil, errors.New("no connection")
	}
	return pb.NewDataManagerClient(cc), nil
}

func (c *Client) Insert(ctx context.Context, id uuid.UUID, value amath.Vector, metadata index.Metadata) error {
	dm, err := c.dm()
	if err != nil {
		return err
	}
	_, err = dm.Insert(ctx, &pb.InsertRequest{DatasetId: c.Ds.Bytes(), Id: id.Bytes(), Value: value, Metadata: metadata})
	return err
}

func (c *Client) Update(ctx context.Context, id uuid.UUID, value amath.Vector, metadata index.Metadata) error {
	dm, err := c.dm()
	if err != nil {
		return err
	}
	_, err = dm.Update(ctx, &pb.UpdateRequest{DatasetId: c.Ds.Bytes(), Id: id.Bytes(), Value: value, Metadata: metadata})
	return err
}

func (c *Client) Remove(ctx context.Context, id uuid.UUID) error {
	dm, err := c.dm()
	if err != nil {
		return err
	}
	_, err = dm.Remove(ctx, &pb.RemoveRequest{DatasetId: c.Ds.Bytes(), Id: id.Bytes()})
	return err
}

func batchErrors(r *pb.BatchResponse, err error) (map[uuid.UUID]error, error) {
	if err != nil {
		return nil, err
	}
	out := map[uuid.UUID]error{}
	for k, v := range r.GetErrors() {
		id, perr := uuid.FromString(k)
		if perr != nil {
			return nil, fmt.Errorf("batch response names a malformed id %q", k)
		}
		out[id] = errors.New(v)
	}
	return out, nil
}

func (c *Client) BatchInsert(ctx context.Context, items []*pb.BatchItem) (map[uuid.UUID]error, error) {
	dm, err := c.dm()
	if err != nil {
		return nil, err
	}
	return batchErrors(dm.BatchInsert(ctx, &pb.BatchRequest{DatasetId: c.Ds.Bytes(), Items: items}))
}

func (c *Client) BatchUpdate(ctx context.Context, items []*pb.BatchItem) (map[uuid.UUID]error, error) {
	dm, err := c.dm()
	if err != nil {
		return nil, err
	}
	return batchErrors(dm.BatchUpdate(ctx, &pb.BatchRequest{DatasetId: c.Ds.Bytes(), Items: items}))
}

func (c *Client) BatchRemove(ctx context.Context, items []*pb.BatchItem) (map[uuid.UUID]error, error) {
	dm, err := c.dm()
	if err != nil {
		return nil, err
	}
	return batchErrors(dm.BatchRemove(ctx, &pb.BatchRequest{DatasetId: c.Ds.Bytes(), Items: items}))
}

// Create creates a dataset through this server.
func (s *Server) Create(dim, partitions, replication uint32, space pb.Space, timeout time.Duration) (*pb.Dataset, error) {
	cc := s.Conn()
	if cc == nil {
		return nil, errors.New("no connection")
	}
	ctx, cancel := context.WithTimeout(context.Background(), timeout)
	defer cancel()
	return pb.NewDatasetManagerClient(cc).Create(ctx, &pb.Dataset{Dimension: dim, PartitionCount: partitions, ReplicationFactor: replication, Space: space})
}

// State dump of a server built with the verif tag (written on SIGUSR1).
type DumpItem struct {
	Vector   []float32
	Metadata map[string]string
}
type DumpRaft struct {
	Term, Commit, Applied, Lead uint64
	// what the group's log store holds, read through the store by the server itself
	DurableTerm, DurableVote, DurableCommit, SnapshotIndex, FirstIndex, LastIndex uint64
	DurableErr                                                                    string
}
type DumpPartition struct {
	Loaded  bool
	Raft    *DumpRaft
	NodeIds []uint64
	Len     uint64
	Items   map[string]DumpItem
}
type Dump struct {
	NodeId   uint64
	Zero     *DumpRaft
	Nodes    map[string]string
	Datasets map[string]map[string]*DumpPartition
	Order    map[string][]string
}

func (s *Server) DumpPath() string { return filepath.Join(s.Dir, "dump.json") }

// Dump asks the running server for its state (SIGUSR1) and reads the file it writes.
func (s *Server) Dump(timeout time.Duration) (*Dump, error) {
	if !s.Alive() {
		return nil, fmt.Errorf("process not running: %s", s.ExitReason())
	}
	os.Remove(s.DumpPath())
	if err := syscall.Kill(s.cmd.Process.Pid, syscall.SIGUSR1); err != nil {
		return nil, err
	}
	deadline := time.Now().Add(timeout)
	for time.Now().Before(deadline) {
		b, err := os.ReadFile(s.DumpPath())
		if err == nil {
			d := &Dump{}
			if err := json.Unmarshal(b, d); err != nil {
				return nil, fmt.Errorf("dump unreadable: %v", err)
			}
			return d, nil
		}
		if !s.Alive() {
			return nil, fmt.Errorf("process exited while dumping: %s", s.ExitReason())
		}
		time.Sleep(20 * time.Millisecond)
	}
	return nil, fmt.Errorf("no dump within %v", timeout)
}

// WaitExit waits for the process to end on its own (an armed kill point).
func (s *Server) WaitExit(d time.Duration) bool {
	if s.cmd == nil {
		return true
	}
	select {
	case <-s.done:
		return true
	case <-time.After(d):
		return false
	}
}

// Pid of the server process (0 when not started).
func (s *Server) Pid() int {
	if s.cmd == nil || s.cmd.Process == nil {
		return 0
	}
	return s.cmd.Process.Pid
}
