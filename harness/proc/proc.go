// Package proc is the real-process rig: cmd/anndb built from /repo, started as
// child processes on loopback, driven through real gRPC clients, killed with
// SIGKILL and restarted on the same data directory.
package proc

import (
	"context"
	"fmt"
	"io"
	"os"
	"os/exec"
	"path/filepath"
	"strings"
	"syscall"
	"time"

	pb "github.com/marekgalovic/anndb/protobuf"
	"google.golang.org/grpc"
	"verif/harness/ports"
)

type Server struct {
	Bin    string
	Id     uint64
	Port   string
	Dir    string
	Join   string // "" = bootstrap a new cluster
	Env    []string
	cmd    *exec.Cmd
	done   chan struct{}
	starts int
	conn   *grpc.ClientConn
}

func FreePort() string { return ports.Free() }

func Bin() string { return os.Getenv("VERIF_ANNDB_BIN") }

func New(id uint64, dir string, join string) *Server {
	os.MkdirAll(dir, 0o755)
	return &Server{Bin: Bin(), Id: id, Port: FreePort(), Dir: dir, Join: join}
}

func (s *Server) Addr() string    { return "127.0.0.1:" + s.Port }
func (s *Server) LogPath() string { return filepath.Join(s.Dir, "server.log") }

// Start launches the server process (address space capped so that a runaway
// allocation ends the server, not the sandbox).
func (s *Server) Start() error {
	args := fmt.Sprintf("ulimit -v 25000000; exec %q -node-id %d -port %s -data-dir %q", s.Bin, s.Id, s.Port, filepath.Join(s.Dir, "data"))
	if s.Join != "" {
		args += fmt.Sprintf(" -join %q", s.Join)
	}
	logf, err := os.OpenFile(s.LogPath(), os.O_CREATE|os.O_APPEND|os.O_WRONLY, 0o644)
	if err != nil {
		return err
	}
	s.starts++
	fmt.Fprintf(logf, "==== start %d\n", s.starts)
	cmd := exec.Command("sh", "-c", args)
	cmd.Stdout, cmd.Stderr = logf, logf
	cmd.Env = append(append(os.Environ(), "VERIF_DUMP="+filepath.Join(s.Dir, "dump.json")), s.Env...)
	cmd.SysProcAttr = &syscall.SysProcAttr{Setpgid: true}
	if err := cmd.Start(); err != nil {
		logf.Close()
		return err
	}
	s.cmd = cmd
	s.done = make(chan struct{})
	go func(c *exec.Cmd, d chan struct{}) { c.Wait(); logf.Close(); close(d) }(cmd, s.done)
	return nil
}

func (s *Server) Alive() bool {
	if s.cmd == nil {
		return false
	}
	select {
	case <-s.done:
		return false
	default:
		return true
	}
}

// Kill sends SIGKILL to the server's process group and waits for it.
func (s *Server) Kill() {
	if s.conn != nil {
		s.conn.Close()
		s.conn = nil
	}
	if s.cmd == nil || s.cmd.Process == nil {
		return
	}
	syscall.Kill(-s.cmd.Process.Pid, syscall.SIGKILL)
	select {
	case <-s.done:
	case <-time.After(5 * time.Second):
	}
}

func (s *Server) Conn() *grpc.ClientConn {
	if s.conn == nil {
		c, err := grpc.Dial(s.Addr(), grpc.WithInsecure(), grpc.WithDefaultCallOptions(grpc.MaxCallRecvMsgSize(64<<20), grpc.MaxCallSendMsgSize(64<<20)))
		if err == nil {
			s.conn = c
		}
	}
	return s.conn
}

// List is the liveness probe: DatasetManager.List must answer.
func (s *Server) List(timeout time.Duration) ([]*pb.Dataset, error) {
	c := s.Conn()
	if c == nil {
		return nil, fmt.Errorf("no connection")
	}
	ctx, cancel := context.WithTimeout(context.Background(), timeout)
	defer cancel()
	st, err := pb.NewDatasetManagerClient(c).List(ctx, &pb.ListDatasetsRequest{})
	if err != nil {
		return nil, err
	}
	var out []*pb.Dataset
	for {
		d, err := st.Recv()
		if err == io.EOF {
			return out, nil
		}
		if err != nil {
			return nil, err
		}
		out = append(out, d)
	}
}

// WaitServing waits until the server answers List and can commit a catalogue
// entry (it has a leader).
func (s *Server) WaitServing(d time.Duration) error {
	deadline := time.Now().Add(d)
	var last error
	for time.Now().Before(deadline) {
		if !s.Alive() {
			return fmt.Errorf("process exited: %s", s.ExitReason())
		}
		if _, err := s.List(time.Second); err == nil {
			return nil
		} else {
			last = err
		}
		time.Sleep(50 * time.Millisecond)
	}
	return fmt.Errorf("not serving within %v: %v", d, last)
}

// ExitReason extracts the first panic / fatal line (and the first /repo frame)
// of the latest start from the server log.
func (s *Server) ExitReason() string {
	b, err := os.ReadFile(s.LogPath())
	if err != nil {
		return "no log"
	}
	txt := string(b)
	if i := strings.LastIndex(txt, "==== start "); i >= 0 {
		txt = txt[i:]
	}
	lines := strings.Split(txt, "\n")
	for i, l := range lines {
		if strings.HasPrefix(l, "panic:") || strings.HasPrefix(l, "fatal error:") || strings.Contains(l, "level=fatal") {
			reason := l
			if len(reason) > 200 {
				reason = reason[:200]
			}
			for _, f := range lines[i:min(i+80, len(lines))] {
				if j := strings.Index(f, "github.com/marekgalovic/anndb"); j >= 0 && !strings.Contains(f, "/protobuf.") {
					fr := f[j:]
					if k := strings.IndexAny(fr, "( \t"); k > 0 {
						fr = fr[:k]
					}
					return reason + " @ " + fr
				}
			}
			return reason
		}
	}
	if len(lines) > 3 {
		return "exit without panic/fatal line; last: " + lines[len(lines)-2]
	}
	return "exit without output"
}

func min(a, b int) int {
	if a < b {
		return a
	}
	return b
}
