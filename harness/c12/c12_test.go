// C12 — no request can crash a node or poison the replicated log.
// Real cmd/anndb processes; every request class gets a server of its own.
package c12

import (
	"context"
	"fmt"
	"io"
	"math"
	"math/rand"
	"os"
	"path/filepath"
	"sort"
	"strings"
	"sync"
	"sync/atomic"
	"testing"
	"time"

	pb "github.com/marekgalovic/anndb/protobuf"
	uuid "github.com/satori/go.uuid"
	"verif/harness/hx"
	"verif/harness/mon"
	"verif/harness/proc"
)

type env struct {
	s     *proc.Server
	dm    pb.DatasetManagerClient
	data  pb.DataManagerClient
	srch  pb.SearchClient
	ds    *pb.Dataset // a valid 4-dimensional dataset with 2 partitions and a few items
	dsId  []byte
	items []uuid.UUID
	space pb.Space
}

func (e *env) ctx() (context.Context, context.CancelFunc) {
	return context.WithTimeout(context.Background(), 8*time.Second)
}

type class struct {
	name  string
	space pb.Space
	run   func(e *env)
}

func bytesOfLen(n int) []byte {
	b := make([]byte, n)
	for i := range b {
		b[i] = byte(i*7 + 1)
	}
	return b
}

func vec(xs ...float32) []float32 { return xs }

func drain(st interface {
	Recv() (*pb.SearchResultItem, error)
}, err error) {
	if err != nil {
		return
	}
	for {
		if _, err := st.Recv(); err != nil {
			return
		}
	}
}

func classes() []class {
	var cs []class
	add := func(name string, run func(e *env)) { cs = append(cs, class{name: name, run: run}) }
	addSp := func(name string, sp pb.Space, run func(e *env)) {
		cs = append(cs, class{name: name, space: sp, run: run})
	}
	idLens := []int{0, 15, 17, 1000}
	// ---- malformed / truncated ids on every RPC that takes one
	for _, n := range idLens {
		n := n
		bad := bytesOfLen(n)
		add(fmt.Sprintf("DatasetManager.Get:dataset-id-len-%d", n), func(e *env) {
			c, f := e.ctx()
			defer f()
			e.dm.Get(c, &pb.GetDatasetRequest{DatasetId: bad, WithSize: true})
		})
		add(fmt.Sprintf("DatasetManager.Delete:id-len-%d", n), func(e *env) { c, f := e.ctx(); defer f(); e.dm.Delete(c, &pb.UUIDRequest{Id: bad}) })
		add(fmt.Sprintf("DatasetManager.GetDatasetSize:dataset-id-len-%d", n), func(e *env) {
			c, f := e.ctx()
			defer f()
			e.dm.GetDatasetSize(c, &pb.GetDatasetRequest{DatasetId: bad})
		})
		add(fmt.Sprintf("DataManager.Insert:dataset-id-len-%d", n), func(e *env) {
			c, f := e.ctx()
			defer f()
			e.data.Insert(c, &pb.InsertRequest{DatasetId: bad, Id: hx.Id(1).Bytes(), Value: vec(1, 2, 3, 4)})
		})
		add(fmt.Sprintf("DataManager.Insert:id-len-%d", n), func(e *env) {
			c, f := e.ctx()
			defer f()
			e.data.Insert(c, &pb.InsertRequest{DatasetId: e.dsId, Id: bad, Value: vec(1, 2, 3, 4)})
		})
		add(fmt.Sprintf("DataManager.Update:id-len-%d", n), func(e *env) {
			c, f := e.ctx()
			defer f()
			e.data.Update(c, &pb.UpdateRequest{DatasetId: e.dsId, Id: bad, Value: vec(1, 2, 3, 4)})
		})
		add(fmt.Sprintf("DataManager.Remove:id-len-%d", n), func(e *env) {
			c, f := e.ctx()
			defer f()
			e.data.Remove(c, &pb.RemoveRequest{DatasetId: e.dsId, Id: bad})
		})
		for _, kind := range []string{"BatchInsert", "BatchUpdate", "BatchRemove"} {
			kind := kind
			add(fmt.Sprintf("DataManager.%s:item-id-len-%d", kind, n), func(e *env) {
				c, f := e.ctx()
				defer f()
				req := &pb.BatchRequest{DatasetId: e.dsId, Items: []*pb.BatchItem{{Id: hx.Id(500).Bytes(), Value: vec(1, 2, 3, 4)}, {Id: bad, Value: vec(1, 2, 3, 4)}}}
				switch kind {
				case "BatchInsert":
					e.data.BatchInsert(c, req)
				case "BatchUpdate":
					e.data.BatchUpdate(c, req)
				default:
					e.data.BatchRemove(c, req)
				}
			})
			add(fmt.Sprintf("DataManager.Partition%s:item-id-len-%d", kind, n), func(e *env) {
				c, f := e.ctx()
				defer f()
				req := &pb.PartitionBatchRequest{DatasetId: e.dsId, PartitionId: e.ds.Partitions[0].Id, Items: []*pb.BatchItem{{Id: bad, Value: vec(1, 2, 3, 4)}}}
				switch kind {
				case "BatchInsert":
					e.data.PartitionBatchInsert(c, req)
				case "BatchUpdate":
					e.data.PartitionBatchUpdate(c, req)
				default:
					e.data.PartitionBatchRemove(c, req)
				}
			})
		}
		add(fmt.Sprintf("DataManager.PartitionBatchInsert:partition-id-len-%d", n), func(e *env) {
			c, f := e.ctx()
			defer f()
			e.data.PartitionBatchInsert(c, &pb.PartitionBatchRequest{DatasetId: e.dsId, PartitionId: bad, Items: []*pb.BatchItem{{Id: hx.Id(501).Bytes(), Value: vec(1, 2, 3, 4)}}})
		})
		add(fmt.Sprintf("DataManager.PartitionInfo:partition-id-len-%d", n), func(e *env) {
			c, f := e.ctx()
			defer f()
			e.data.PartitionInfo(c, &pb.PartitionInfoRequest{DatasetId: e.dsId, PartitionId: bad})
		})
		add(fmt.Sprintf("Search.Search:dataset-id-len-%d", n), func(e *env) {
			c, f := e.ctx()
			defer f()
			drain(e.srch.Search(c, &pb.SearchRequest{DatasetId: bad, Query: vec(1, 2, 3, 4), K: 3}))
		})
		add(fmt.Sprintf("Search.SearchPartitions:partition-id-len-%d", n), func(e *env) {
			c, f := e.ctx()
			defer f()
			drain(e.srch.SearchPartitions(c, &pb.SearchPartitionsRequest{DatasetId: e.dsId, PartitionIds: [][]byte{bad}, Query: vec(1, 2, 3, 4), K: 3}))
		})
	}
	unknown := hx.Id(999999).Bytes()
	add("DataManager.Insert:unknown-dataset", func(e *env) {
		c, f := e.ctx()
		defer f()
		e.data.Insert(c, &pb.InsertRequest{DatasetId: unknown, Id: hx.Id(1).Bytes(), Value: vec(1, 2, 3, 4)})
	})
	add("Search.Search:unknown-dataset", func(e *env) {
		c, f := e.ctx()
		defer f()
		drain(e.srch.Search(c, &pb.SearchRequest{DatasetId: unknown, Query: vec(1, 2, 3, 4), K: 3}))
	})
	add("DataManager.PartitionBatchInsert:unknown-partition", func(e *env) {
		c, f := e.ctx()
		defer f()
		e.data.PartitionBatchInsert(c, &pb.PartitionBatchRequest{DatasetId: e.dsId, PartitionId: unknown, Items: []*pb.BatchItem{{Id: hx.Id(502).Bytes(), Value: vec(1, 2, 3, 4)}}})
	})
	add("Search.SearchPartitions:unknown-partition", func(e *env) {
		c, f := e.ctx()
		defer f()
		drain(e.srch.SearchPartitions(c, &pb.SearchPartitionsRequest{DatasetId: e.dsId, PartitionIds: [][]byte{unknown}, Query: vec(1, 2, 3, 4), K: 3}))
	})
	add("DatasetManager.Delete:twice", func(e *env) {
		c, f := e.ctx()
		defer f()
		e.dm.Delete(c, &pb.UUIDRequest{Id: e.dsId})
		e.dm.Delete(c, &pb.UUIDRequest{Id: e.dsId})
		e.data.Insert(c, &pb.InsertRequest{DatasetId: e.dsId, Id: hx.Id(1).Bytes(), Value: vec(1, 2, 3, 4)})
		drain(e.srch.Search(c, &pb.SearchRequest{DatasetId: e.dsId, Query: vec(1, 2, 3, 4), K: 3}))
	})
	// ---- dataset creation with degenerate parameters (and use of what was created)
	for _, p := range []struct {
		name string
		ds   pb.Dataset
	}{
		{"partition-count-0", pb.Dataset{Dimension: 4, PartitionCount: 0, ReplicationFactor: 1}},
		{"replication-0", pb.Dataset{Dimension: 4, PartitionCount: 2, ReplicationFactor: 0}},
		{"dimension-0", pb.Dataset{Dimension: 0, PartitionCount: 1, ReplicationFactor: 1}},
		{"unknown-space", pb.Dataset{Dimension: 4, PartitionCount: 1, ReplicationFactor: 1, Space: pb.Space(7)}},
		{"unknown-space-first-past-the-enum", pb.Dataset{Dimension: 4, PartitionCount: 1, ReplicationFactor: 1, Space: pb.Space(len(pb.Space_name))}},
		{"unknown-space-negative", pb.Dataset{Dimension: 4, PartitionCount: 1, ReplicationFactor: 1, Space: pb.Space(-1)}},
		{"unknown-space-max", pb.Dataset{Dimension: 4, PartitionCount: 1, ReplicationFactor: 1, Space: pb.Space(2147483647)}},
		{"partition-count-5000", pb.Dataset{Dimension: 4, PartitionCount: 5000, ReplicationFactor: 1}},
		{"replication-1000", pb.Dataset{Dimension: 4, PartitionCount: 1, ReplicationFactor: 1000}},
		{"dimension-2^31", pb.Dataset{Dimension: 1 << 31, PartitionCount: 1, ReplicationFactor: 1}},
	} {
		p := p
		add("DatasetManager.Create:"+p.name, func(e *env) {
			c, f := e.ctx()
			defer f()
			in := p.ds
			d, err := e.dm.Create(c, &in)
			if err != nil || d == nil {
				return
			}
			// use it the way a client would
			dim := int(d.Dimension)
			if dim > 8 {
				dim = 8
			}
			v := make([]float32, dim)
			for i := range v {
				v[i] = float32(i + 1)
			}
			e.data.Insert(c, &pb.InsertRequest{DatasetId: d.Id, Id: hx.Id(7).Bytes(), Value: v})
			e.data.Insert(c, &pb.InsertRequest{DatasetId: d.Id, Id: hx.Id(9).Bytes(), Value: v})
			e.data.Insert(c, &pb.InsertRequest{DatasetId: d.Id, Id: hx.Id(10).Bytes(), Value: v})
			e.data.BatchInsert(c, &pb.BatchRequest{DatasetId: d.Id, Items: []*pb.BatchItem{{Id: hx.Id(8).Bytes(), Value: v}}})
			drain(e.srch.Search(c, &pb.SearchRequest{DatasetId: d.Id, Query: v, K: 3}))
			e.dm.GetDatasetSize(c, &pb.GetDatasetRequest{DatasetId: d.Id})
			e.data.Remove(c, &pb.RemoveRequest{DatasetId: d.Id, Id: hx.Id(7).Bytes()})
		})
	}
	// ---- vectors and dimensions
	add("DataManager.Insert:empty-vector", func(e *env) {
		c, f := e.ctx()
		defer f()
		e.data.Insert(c, &pb.InsertRequest{DatasetId: e.dsId, Id: hx.Id(600).Bytes()})
	})
	add("DataManager.Insert:wrong-dimension", func(e *env) {
		c, f := e.ctx()
		defer f()
		e.data.Insert(c, &pb.InsertRequest{DatasetId: e.dsId, Id: hx.Id(601).Bytes(), Value: vec(1, 2)})
	})
	add("DataManager.Update:wrong-dimension", func(e *env) {
		c, f := e.ctx()
		defer f()
		e.data.Update(c, &pb.UpdateRequest{DatasetId: e.dsId, Id: e.items[0].Bytes(), Value: vec(1, 2, 3, 4, 5)})
	})
	add("DataManager.Update:no-metadata", func(e *env) {
		c, f := e.ctx()
		defer f()
		e.data.Update(c, &pb.UpdateRequest{DatasetId: e.dsId, Id: e.items[0].Bytes(), Value: vec(1, 2, 3, 4)})
	})
	add("DataManager.BatchUpdate:no-metadata", func(e *env) {
		c, f := e.ctx()
		defer f()
		e.data.BatchUpdate(c, &pb.BatchRequest{DatasetId: e.dsId, Items: []*pb.BatchItem{{Id: e.items[0].Bytes(), Value: vec(1, 2, 3, 4)}, {Id: e.items[1].Bytes(), Value: vec(4, 3, 2, 1)}}})
	})
	for _, kind := range []string{"PartitionBatchInsert", "PartitionBatchUpdate"} {
		kind := kind
		add("DataManager."+kind+":wrong-dimension", func(e *env) {
			c, f := e.ctx()
			defer f()
			for pi, p := range e.ds.Partitions {
				req := &pb.PartitionBatchRequest{DatasetId: e.dsId, PartitionId: p.Id, Items: []*pb.BatchItem{{Id: hx.Id(610 + pi).Bytes(), Value: vec(1, 2)}, {Id: e.items[0].Bytes(), Value: vec(9)}}}
				if kind == "PartitionBatchInsert" {
					e.data.PartitionBatchInsert(c, req)
				} else {
					e.data.PartitionBatchUpdate(c, req)
				}
			}
			// the wrong-dimension items are now in the index: search and insert next to them
			drain(e.srch.Search(c, &pb.SearchRequest{DatasetId: e.dsId, Query: vec(1, 2, 3, 4), K: 10}))
			e.data.Insert(c, &pb.InsertRequest{DatasetId: e.dsId, Id: hx.Id(620).Bytes(), Value: vec(1, 2, 3, 4)})
		})
		add("DataManager."+kind+":empty-vector", func(e *env) {
			c, f := e.ctx()
			defer f()
			for pi, p := range e.ds.Partitions {
				req := &pb.PartitionBatchRequest{DatasetId: e.dsId, PartitionId: p.Id, Items: []*pb.BatchItem{{Id: hx.Id(630 + pi).Bytes()}, {Id: e.items[0].Bytes()}}}
				if kind == "PartitionBatchInsert" {
					e.data.PartitionBatchInsert(c, req)
				} else {
					e.data.PartitionBatchUpdate(c, req)
				}
			}
			drain(e.srch.Search(c, &pb.SearchRequest{DatasetId: e.dsId, Query: vec(1, 2, 3, 4), K: 10}))
			e.data.Insert(c, &pb.InsertRequest{DatasetId: e.dsId, Id: hx.Id(640).Bytes(), Value: vec(1, 2, 3, 4)})
		})
	}
	// ---- non-finite and extreme numbers under each metric
	nums := map[string][]float32{
		"nan":       {float32(math.NaN()), 1, 2, 3},
		"inf":       {float32(math.Inf(1)), float32(math.Inf(-1)), 0, 1},
		"subnormal": {1e-45, -1e-45, 1e-40, 0},
		"huge":      {3e38, -3e38, 3e38, 3e38},
		"zero":      {0, 0, 0, 0},
	}
	var numNames []string
	for k := range nums {
		numNames = append(numNames, k)
	}
	sort.Strings(numNames)
	for _, sp := range []pb.Space{pb.Space_Euclidean, pb.Space_Manhattan, pb.Space_Cosine} {
		for _, nn := range numNames {
			sp, nn, v := sp, nn, nums[nn]
			addSp(fmt.Sprintf("DataManager.Insert+Search:%s-coordinates:%s", nn, sp), sp, func(e *env) {
				c, f := e.ctx()
				defer f()
				for i := 0; i < 3; i++ {
					e.data.Insert(c, &pb.InsertRequest{DatasetId: e.dsId, Id: hx.Id(700 + i).Bytes(), Value: v})
				}
				e.data.Insert(c, &pb.InsertRequest{DatasetId: e.dsId, Id: hx.Id(710).Bytes(), Value: vec(1, 2, 3, 4)})
				drain(e.srch.Search(c, &pb.SearchRequest{DatasetId: e.dsId, Query: v, K: 5}))
				drain(e.srch.Search(c, &pb.SearchRequest{DatasetId: e.dsId, Query: vec(1, 1, 1, 1), K: 5}))
				e.data.Remove(c, &pb.RemoveRequest{DatasetId: e.dsId, Id: hx.Id(700).Bytes()})
				e.data.Update(c, &pb.UpdateRequest{DatasetId: e.dsId, Id: hx.Id(701).Bytes(), Value: v})
			})
		}
	}
	// ---- ordinary numbers at the edge of the metric's range: queries and values parallel, nearly parallel,
	// opposite and identical to stored vectors (distances of exactly zero, or within rounding of it on either side)
	for _, sp := range []pb.Space{pb.Space_Euclidean, pb.Space_Manhattan, pb.Space_Cosine} {
		sp := sp
		addSp(fmt.Sprintf("DataManager.Insert+Search:parallel-and-coincident-vectors:%s", sp), sp, func(e *env) {
			c, f := e.ctx()
			defer f()
			rng := rand.New(rand.NewSource(12))
			var stored [][]float32
			for i := 0; i < 40; i++ {
				v := vec(rng.Float32()*2-1, rng.Float32()*2-1, rng.Float32()*2-1, rng.Float32()*2-1)
				stored = append(stored, v)
				e.data.Insert(c, &pb.InsertRequest{DatasetId: e.dsId, Id: hx.Id(800 + i).Bytes(), Value: v})
			}
			scale := func(v []float32, f float32) []float32 {
				o := make([]float32, len(v))
				for i := range v {
					o[i] = v[i] * f
				}
				return o
			}
			for i, v := range stored {
				for j, f := range []float32{3, 1.00001, 1, -1, 0.3333333} {
					drain(e.srch.Search(c, &pb.SearchRequest{DatasetId: e.dsId, Query: scale(v, f), K: 5}))
					if i < 12 {
						e.data.Insert(c, &pb.InsertRequest{DatasetId: e.dsId, Id: hx.Id(900 + i*8 + j).Bytes(), Value: scale(v, f)})
					}
				}
			}
			e.data.Update(c, &pb.UpdateRequest{DatasetId: e.dsId, Id: hx.Id(801).Bytes(), Value: scale(stored[0], 7)})
			e.data.BatchInsert(c, &pb.BatchRequest{DatasetId: e.dsId, Items: []*pb.BatchItem{
				{Id: hx.Id(1100).Bytes(), Value: scale(stored[2], 2)}, {Id: hx.Id(1101).Bytes(), Value: scale(stored[2], 2)}, {Id: hx.Id(1102).Bytes(), Value: scale(stored[2], 5)}}})
		})
	}
	// ---- k
	add("Search.Search:k-0", func(e *env) {
		c, f := e.ctx()
		defer f()
		drain(e.srch.Search(c, &pb.SearchRequest{DatasetId: e.dsId, Query: vec(1, 2, 3, 4), K: 0}))
	})
	add("Search.Search:k-2^32-1", func(e *env) {
		c, f := e.ctx()
		defer f()
		drain(e.srch.Search(c, &pb.SearchRequest{DatasetId: e.dsId, Query: vec(1, 2, 3, 4), K: math.MaxUint32}))
	})
	add("Search.Search:k-2^20", func(e *env) {
		c, f := e.ctx()
		defer f()
		drain(e.srch.Search(c, &pb.SearchRequest{DatasetId: e.dsId, Query: vec(1, 2, 3, 4), K: 1 << 20}))
	})
	add("Search.Search:empty-query", func(e *env) {
		c, f := e.ctx()
		defer f()
		drain(e.srch.Search(c, &pb.SearchRequest{DatasetId: e.dsId, K: 3}))
	})
	add("Search.SearchPartitions:wrong-dimension-query", func(e *env) {
		c, f := e.ctx()
		defer f()
		drain(e.srch.SearchPartitions(c, &pb.SearchPartitionsRequest{DatasetId: e.dsId, PartitionIds: [][]byte{e.ds.Partitions[0].Id, e.ds.Partitions[1].Id}, Query: vec(1), K: 3}))
		drain(e.srch.SearchPartitions(c, &pb.SearchPartitionsRequest{DatasetId: e.dsId, PartitionIds: [][]byte{e.ds.Partitions[0].Id, e.ds.Partitions[1].Id}, K: 3}))
	})
	add("Search.SearchPartitions:k-2^32-1", func(e *env) {
		c, f := e.ctx()
		defer f()
		drain(e.srch.SearchPartitions(c, &pb.SearchPartitionsRequest{DatasetId: e.dsId, PartitionIds: [][]byte{e.ds.Partitions[0].Id}, Query: vec(1, 2, 3, 4), K: math.MaxUint32}))
	})
	// ---- metadata
	big := func(n int, ch string) string { return strings.Repeat(ch, n) }
	add("DataManager.Insert:metadata-key-256-bytes", func(e *env) {
		c, f := e.ctx()
		defer f()
		e.data.Insert(c, &pb.InsertRequest{DatasetId: e.dsId, Id: hx.Id(800).Bytes(), Value: vec(1, 2, 3, 4), Metadata: map[string]string{big(256, "k"): "v"}})
	})
	add("DataManager.Insert:metadata-value-65536-bytes", func(e *env) {
		c, f := e.ctx()
		defer f()
		e.data.Insert(c, &pb.InsertRequest{DatasetId: e.dsId, Id: hx.Id(801).Bytes(), Value: vec(1, 2, 3, 4), Metadata: map[string]string{"k": big(65536, "v")}})
	})
	add("DataManager.Insert:metadata-70000-pairs", func(e *env) {
		c, f := context.WithTimeout(context.Background(), 20*time.Second)
		defer f()
		m := map[string]string{}
		for i := 0; i < 70000; i++ {
			m[fmt.Sprintf("%x", i)] = ""
		}
		e.data.Insert(c, &pb.InsertRequest{DatasetId: e.dsId, Id: hx.Id(802).Bytes(), Value: vec(1, 2, 3, 4), Metadata: m})
	})
	add("DataManager.Insert:metadata-non-utf8", func(e *env) {
		c, f := e.ctx()
		defer f()
		e.data.Insert(c, &pb.InsertRequest{DatasetId: e.dsId, Id: hx.Id(803).Bytes(), Value: vec(1, 2, 3, 4), Metadata: map[string]string{"\xff\xfe": "\x80"}})
	})
	// ---- batches
	for _, n := range []int{0, 100, 101, 10000} {
		n := n
		for _, kind := range []string{"BatchInsert", "BatchUpdate", "BatchRemove"} {
			kind := kind
			add(fmt.Sprintf("DataManager.%s:%d-items", kind, n), func(e *env) {
				c, f := context.WithTimeout(context.Background(), 20*time.Second)
				defer f()
				items := make([]*pb.BatchItem, n)
				for i := range items {
					items[i] = &pb.BatchItem{Id: hx.Id(1000 + i).Bytes(), Value: vec(float32(i), 2, 3, 4)}
				}
				req := &pb.BatchRequest{DatasetId: e.dsId, Items: items}
				switch kind {
				case "BatchInsert":
					e.data.BatchInsert(c, req)
				case "BatchUpdate":
					e.data.BatchUpdate(c, req)
				default:
					e.data.BatchRemove(c, req)
				}
			})
		}
	}
	add("DataManager.BatchInsert:duplicate-ids-and-mixed-validity", func(e *env) {
		c, f := e.ctx()
		defer f()
		id := hx.Id(900).Bytes()
		e.data.BatchInsert(c, &pb.BatchRequest{DatasetId: e.dsId, Items: []*pb.BatchItem{{Id: id, Value: vec(1, 2, 3, 4)}, {Id: id, Value: vec(4, 3, 2, 1)}, {Id: id, Value: vec(1)}, {Id: e.items[0].Bytes(), Value: vec(1, 2, 3, 4)}, {Value: vec(1, 2, 3, 4)}}})
		e.data.BatchUpdate(c, &pb.BatchRequest{DatasetId: e.dsId, Items: []*pb.BatchItem{{Id: id, Value: vec(1, 2, 3, 4)}, {Id: id}, {Id: hx.Id(901).Bytes(), Value: vec(1, 2, 3, 4)}}})
		e.data.BatchRemove(c, &pb.BatchRequest{DatasetId: e.dsId, Items: []*pb.BatchItem{{Id: id}, {Id: id}, {Id: hx.Id(902).Bytes()}}})
	})
	add("DataManager.PartitionBatchInsert:item-of-another-partition", func(e *env) {
		c, f := e.ctx()
		defer f()
		for i := 0; i < 4; i++ {
			e.data.PartitionBatchInsert(c, &pb.PartitionBatchRequest{DatasetId: e.dsId, PartitionId: e.ds.Partitions[i%2].Id, Items: []*pb.BatchItem{{Id: hx.Id(950 + i).Bytes(), Value: vec(1, 2, 3, 4)}}})
		}
		for i := 0; i < 4; i++ {
			e.data.Remove(c, &pb.RemoveRequest{DatasetId: e.dsId, Id: hx.Id(950 + i).Bytes()})
		}
	})
	// a stored item that no search can reach (nobody links to it any more: pruning is one-sided) and a k that is not
	// below the number of stored items
	add("Search.Search:k-not-below-the-item-count-with-an-unreachable-item", func(e *env) {
		c, f := e.ctx()
		defer f()
		// a dataset of its own: one partition, 32 dimensions. The second item is an outlier; fifteen items next to the
		// first and seventeen on axes of their own fill every neighbour list the outlier was in until nobody links to
		// it any more
		d, err := e.dm.Create(c, &pb.Dataset{Dimension: 32, PartitionCount: 1, ReplicationFactor: 1, Space: pb.Space_Euclidean})
		if err != nil {
			return
		}
		axis := func(a int, v float32) []float32 {
			x := make([]float32, 32)
			x[a] = v
			return x
		}
		n := 0
		put := func(v []float32) {
			e.data.Insert(c, &pb.InsertRequest{DatasetId: d.Id, Id: hx.Id(3000 + n).Bytes(), Value: v})
			n++
		}
		put(axis(30, 0))
		put(axis(31, 1000))
		for i := 1; i <= 15; i++ {
			put(axis(30, 0.001*float32(i)))
		}
		for j := 0; j < 17; j++ {
			put(axis(j, 1))
		}
		for _, k := range []uint32{10, 33, 34, 35, 100, 1000} {
			drain(e.srch.Search(c, &pb.SearchRequest{DatasetId: d.Id, Query: axis(30, 0), K: k}))
			drain(e.srch.SearchPartitions(c, &pb.SearchPartitionsRequest{DatasetId: d.Id, PartitionIds: [][]byte{d.Partitions[0].Id}, Query: axis(30, 0), K: k}))
		}
	})
	// the batch item's level field is part of the public message: whatever a client puts there
	for _, lv := range []int32{-1, -2, -7, math.MinInt32, 31, 1 << 20, math.MaxInt32} {
		lv := lv
		add(fmt.Sprintf("DataManager.Batch*+PartitionBatch*:item-level-%d", lv), func(e *env) {
			c, f := e.ctx()
			defer f()
			// every partition holds items already (the first vertex of an index is stored whatever its level)
			for i := 0; i < 6; i++ {
				e.data.Insert(c, &pb.InsertRequest{DatasetId: e.dsId, Id: hx.Id(1200 + i).Bytes(), Value: vec(float32(i), 2, 3, 4)})
			}
			for i := 0; i < 4; i++ {
				it := []*pb.BatchItem{{Id: hx.Id(1210 + i).Bytes(), Value: vec(float32(i), 5, 5, 5), Level: lv}}
				e.data.PartitionBatchInsert(c, &pb.PartitionBatchRequest{DatasetId: e.dsId, PartitionId: e.ds.Partitions[i%2].Id, Items: it})
			}
			e.data.BatchInsert(c, &pb.BatchRequest{DatasetId: e.dsId, Items: []*pb.BatchItem{{Id: hx.Id(1220).Bytes(), Value: vec(9, 5, 5, 5), Level: lv}, {Id: hx.Id(1221).Bytes(), Value: vec(8, 5, 5, 5), Level: lv}}})
			e.data.BatchUpdate(c, &pb.BatchRequest{DatasetId: e.dsId, Items: []*pb.BatchItem{{Id: hx.Id(1200).Bytes(), Value: vec(7, 5, 5, 5), Level: lv}}})
			for i := 0; i < 2; i++ {
				e.data.PartitionBatchUpdate(c, &pb.PartitionBatchRequest{DatasetId: e.dsId, PartitionId: e.ds.Partitions[i].Id, Items: []*pb.BatchItem{{Id: hx.Id(1201 + i).Bytes(), Value: vec(6, 5, 5, 5), Level: lv}}})
			}
			drain(e.srch.Search(c, &pb.SearchRequest{DatasetId: e.dsId, Query: vec(1, 5, 5, 5), K: 5}))
		})
	}
	// "in any order" includes at the same time: valid requests of every kind overlapping on one partition - batch
	// inserts and batch removals that keep a few hundred items churning (so that vertices of the upper levels are
	// linked and unlinked all the time) while a dozen clients search
	add("any-order:searches-overlapping-writes-on-one-partition", func(e *env) {
		c0, f0 := e.ctx()
		d, err := e.dm.Create(c0, &pb.Dataset{Dimension: 8, PartitionCount: 1, ReplicationFactor: 1})
		f0()
		if err != nil {
			return
		}
		var writersDone int32
		var wg, sg sync.WaitGroup
		for w := 0; w < 3; w++ {
			wg.Add(1)
			go func(w int) {
				defer wg.Done()
				rng := rand.New(rand.NewSource(int64(w) + 77))
				next, oldest := 0, 0
				idOf := func(n int) []byte { return hx.Id(100000*(w+1) + n).Bytes() }
				for round := 0; round < 120 && e.s.Alive(); round++ {
					var ins, rem []*pb.BatchItem
					for i := 0; i < 25; i++ {
						v := make([]float32, 8)
						for j := range v {
							v[j] = float32(rng.NormFloat64())
						}
						ins = append(ins, &pb.BatchItem{Id: idOf(next), Value: v})
						next++
					}
					c, f := context.WithTimeout(context.Background(), 20*time.Second)
					e.data.BatchInsert(c, &pb.BatchRequest{DatasetId: d.Id, Items: ins})
					f()
					for next-oldest > 130 {
						rem = append(rem, &pb.BatchItem{Id: idOf(oldest)})
						oldest++
					}
					if len(rem) > 0 {
						c, f := context.WithTimeout(context.Background(), 20*time.Second)
						e.data.BatchRemove(c, &pb.BatchRequest{DatasetId: d.Id, Items: rem})
						f()
					}
				}
			}(w)
		}
		for r := 0; r < 12; r++ {
			sg.Add(1)
			go func(r int) {
				defer sg.Done()
				rng := rand.New(rand.NewSource(int64(r) + 991))
				for atomic.LoadInt32(&writersDone) == 0 && e.s.Alive() {
					q := make([]float32, 8)
					for j := range q {
						q[j] = float32(rng.NormFloat64())
					}
					c, f := context.WithTimeout(context.Background(), 20*time.Second)
					if r%2 == 0 {
						drain(e.srch.Search(c, &pb.SearchRequest{DatasetId: d.Id, Query: q, K: 10}))
					} else {
						drain(e.srch.SearchPartitions(c, &pb.SearchPartitionsRequest{DatasetId: d.Id, PartitionIds: [][]byte{d.Partitions[0].Id}, Query: q, K: 10}))
					}
					f()
				}
			}(r)
		}
		wg.Wait()
		atomic.StoreInt32(&writersDone, 1)
		sg.Wait()
	})
	// valid requests again, overlapping: batch writes in flight on a dataset at the moment it is deleted (its
	// partitions are unloaded while proposals wait for their outcome)
	add("any-order:batch-writes-overlapping-the-delete-of-their-dataset", func(e *env) {
		for round := 0; round < 10 && e.s.Alive(); round++ {
			c0, f0 := e.ctx()
			d, err := e.dm.Create(c0, &pb.Dataset{Dimension: 4, PartitionCount: 2, ReplicationFactor: 1})
			f0()
			if err != nil {
				continue
			}
			var wg sync.WaitGroup
			var stop int32
			for w := 0; w < 8; w++ {
				wg.Add(1)
				go func(w int) {
					defer wg.Done()
					for n := 0; atomic.LoadInt32(&stop) == 0 && n < 400 && e.s.Alive(); n++ {
						var items []*pb.BatchItem
						for i := 0; i < 10; i++ {
							items = append(items, &pb.BatchItem{Id: hx.Id(500000 + round*100000 + w*10000 + n*10 + i).Bytes(), Value: vec(float32(i), float32(n), 1, 2)})
						}
						c, f := context.WithTimeout(context.Background(), 10*time.Second)
						switch n % 3 {
						case 0:
							e.data.BatchInsert(c, &pb.BatchRequest{DatasetId: d.Id, Items: items})
						case 1:
							e.data.BatchUpdate(c, &pb.BatchRequest{DatasetId: d.Id, Items: items})
						default:
							e.data.BatchRemove(c, &pb.BatchRequest{DatasetId: d.Id, Items: items})
						}
						f()
					}
				}(w)
			}
			time.Sleep(time.Duration(20+round*7) * time.Millisecond)
			c1, f1 := e.ctx()
			e.dm.Delete(c1, &pb.UUIDRequest{Id: d.Id})
			f1()
			time.Sleep(30 * time.Millisecond)
			atomic.StoreInt32(&stop, 1)
			wg.Wait()
		}
	})
	// a client that gives up: batch writes (and searches) whose deadline ends while they are being served
	add("any-order:requests-whose-caller-gives-up-while-they-are-served", func(e *env) {
		for n := 0; n < 80 && e.s.Alive(); n++ {
			var items []*pb.BatchItem
			for i := 0; i < 100; i++ {
				items = append(items, &pb.BatchItem{Id: hx.Id(700000 + n*100 + i).Bytes(), Value: vec(float32(i), float32(n), 1, 2)})
			}
			d := time.Duration(300+n*n*7) * time.Microsecond // 0.3 ms .. 45 ms
			c, f := context.WithTimeout(context.Background(), d)
			switch n % 4 {
			case 0, 1:
				e.data.BatchInsert(c, &pb.BatchRequest{DatasetId: e.dsId, Items: items})
			case 2:
				e.data.BatchUpdate(c, &pb.BatchRequest{DatasetId: e.dsId, Items: items})
			default:
				e.data.BatchRemove(c, &pb.BatchRequest{DatasetId: e.dsId, Items: items})
			}
			f()
			c2, f2 := context.WithTimeout(context.Background(), d/4+100*time.Microsecond)
			drain(e.srch.Search(c2, &pb.SearchRequest{DatasetId: e.dsId, Query: vec(1, 2, 3, 4), K: 50}))
			f2()
			c3, f3 := context.WithTimeout(context.Background(), d/4+100*time.Microsecond)
			e.dm.GetDatasetSize(c3, &pb.GetDatasetRequest{DatasetId: e.dsId})
			f3()
		}
		time.Sleep(300 * time.Millisecond) // whatever was still running on the server's side ends
	})
	// nothing hostile at all: the baseline of the rig
	add("baseline:valid-requests-only", func(e *env) {
		c, f := e.ctx()
		defer f()
		e.data.Insert(c, &pb.InsertRequest{DatasetId: e.dsId, Id: hx.Id(990).Bytes(), Value: vec(1, 2, 3, 4)})
		drain(e.srch.Search(c, &pb.SearchRequest{DatasetId: e.dsId, Query: vec(1, 2, 3, 4), K: 3}))
	})
	return cs
}

func TestC12(t *testing.T) {
	rec := mon.Open("C12")
	defer rec.Finish(t)
	if proc.Bin() == "" {
		t.Fatal("VERIF_ANNDB_BIN not set")
	}
	cs := classes()
	rec.Count("classes_defined", 0)
	// quick: a seed-determined third of the classes; thorough: all of them
	var mine []int
	rng := rec.Rand("c12", 0)
	perm := rng.Perm(len(cs))
	take := len(cs) // both tiers run every class; thorough repeats them on 3-node clusters (see below)
	for i, ci := range perm[:take] {
		if rec.Mine(i) {
			mine = append(mine, ci)
		}
	}
	sort.Ints(mine)
	var wg sync.WaitGroup
	sem := make(chan struct{}, 3)
	for _, ci := range mine {
		wg.Add(1)
		sem <- struct{}{}
		go func(ci int) {
			defer wg.Done()
			defer func() { <-sem }()
			runClass(rec, cs[ci], ci)
		}(ci)
	}
	wg.Wait()
}

func normalOps(e *env, base int) error {
	c, f := e.ctx()
	defer f()
	id := hx.Id(base)
	if _, err := e.data.Insert(c, &pb.InsertRequest{DatasetId: e.dsId, Id: id.Bytes(), Value: vec(float32(base), 1, 1, 1), Metadata: map[string]string{"a": "b"}}); err != nil {
		return fmt.Errorf("insert: %v", err)
	}
	st, err := e.srch.Search(c, &pb.SearchRequest{DatasetId: e.dsId, Query: vec(float32(base), 1, 1, 1), K: 3})
	if err != nil {
		return fmt.Errorf("search: %v", err)
	}
	n := 0
	for {
		_, err := st.Recv()
		if err == io.EOF {
			break
		}
		if err != nil {
			return fmt.Errorf("search stream: %v", err)
		}
		n++
	}
	if n == 0 {
		return fmt.Errorf("search returned nothing after an insert")
	}
	return nil
}

func runClass(rec *mon.Recorder, cl class, ci int) {
	dir := filepath.Join(os.Getenv("VERIF_SCRATCH"), fmt.Sprintf("c12-%d", ci))
	defer os.RemoveAll(dir)
	s := proc.New(1, dir, "")
	defer s.Kill()
	replay := map[string]interface{}{"class": cl.name, "seed": rec.Seed()}
	if err := s.Start(); err != nil {
		rec.Inconclusive(cl.name + ": start: " + err.Error())
		return
	}
	if err := s.WaitServing(30 * time.Second); err != nil {
		rec.Inconclusive(cl.name + ": fresh server not serving: " + err.Error())
		return
	}
	e := &env{s: s, dm: pb.NewDatasetManagerClient(s.Conn()), data: pb.NewDataManagerClient(s.Conn()), srch: pb.NewSearchClient(s.Conn()), space: cl.space}
	// valid data first: a dataset with two partitions and a few items with metadata
	var err error
	for attempt := 0; attempt < 40; attempt++ {
		c, f := e.ctx()
		e.ds, err = e.dm.Create(c, &pb.Dataset{Dimension: 4, PartitionCount: 2, ReplicationFactor: 1, Space: cl.space})
		f()
		if err == nil {
			break
		}
		time.Sleep(100 * time.Millisecond)
	}
	if err != nil {
		rec.Inconclusive(cl.name + ": setup create: " + err.Error())
		return
	}
	e.dsId = e.ds.Id
	for i := 0; i < 6; i++ {
		id := hx.Id(100 + i)
		var ierr error
		for attempt := 0; attempt < 40; attempt++ {
			c, f := e.ctx()
			_, ierr = e.data.Insert(c, &pb.InsertRequest{DatasetId: e.dsId, Id: id.Bytes(), Value: vec(float32(i), 1, float32(-i), 2), Metadata: map[string]string{"k": fmt.Sprint(i)}})
			f()
			if ierr == nil {
				break
			}
			time.Sleep(100 * time.Millisecond)
		}
		if ierr != nil {
			rec.Inconclusive(cl.name + ": setup insert: " + ierr.Error())
			return
		}
		e.items = append(e.items, id)
	}
	// the hostile request(s)
	cl.run(e)
	rec.Count("classes_run", 1)
	verdict := func(sym, detail string) {
		replay["server_log_tail"] = tailLog(s.LogPath(), 40)
		rec.Violation(cl.name+":"+sym, detail, replay)
		rec.Case(mon.Digest(cl.name), true)
	}
	time.Sleep(150 * time.Millisecond)
	if !s.Alive() {
		verdict("server-exited", cl.name+": the server process exited: "+s.ExitReason())
		return
	}
	if _, err := s.List(5 * time.Second); err != nil {
		// slow is not wedged: keep asking for a generous while before deciding
		answered := false
		for i := 0; i < 40 && s.Alive() && !answered; i++ {
			if _, err2 := s.List(3 * time.Second); err2 == nil {
				answered = true
			}
		}
		if !s.Alive() {
			verdict("server-exited", cl.name+": the server process exited: "+s.ExitReason())
			return
		}
		if !answered {
			verdict("server-unresponsive", cl.name+": List does not answer for two minutes after the request: "+err.Error())
			return
		}
		rec.Count("slow_but_alive", 1)
	}
	if cl.name != "DatasetManager.Delete:twice" {
		if err := normalOps(e, 2000); err != nil {
			if !s.Alive() {
				verdict("server-exited", cl.name+": the server process exited on a valid request after the hostile one: "+s.ExitReason())
			} else {
				verdict("valid-requests-fail-afterwards", cl.name+": "+err.Error())
			}
			return
		}
	}
	// kill -9 and restart on the same data directory: whatever the request left in the log is replayed
	s.Kill()
	if err := s.Start(); err != nil {
		rec.Inconclusive(cl.name + ": restart: " + err.Error())
		return
	}
	if err := s.WaitServing(30 * time.Second); err != nil {
		if !s.Alive() {
			verdict("restart-crashes-on-replay", cl.name+": after kill -9 the server exits while replaying its log: "+s.ExitReason())
		} else {
			verdict("restart-not-serving", cl.name+": after kill -9 the server does not answer List within 30 s: "+err.Error())
		}
		return
	}
	e.dm, e.data, e.srch = pb.NewDatasetManagerClient(s.Conn()), pb.NewDataManagerClient(s.Conn()), pb.NewSearchClient(s.Conn())
	if cl.name != "DatasetManager.Delete:twice" {
		var nerr error
		for attempt := 0; attempt < 30; attempt++ {
			if nerr = normalOps(e, 3000+attempt); nerr == nil {
				break
			}
			if !s.Alive() {
				break
			}
			time.Sleep(200 * time.Millisecond)
		}
		if nerr != nil {
			if !s.Alive() {
				verdict("restart-crashes-on-replay", cl.name+": the restarted server exited: "+s.ExitReason())
			} else {
				verdict("valid-requests-fail-after-restart", cl.name+": "+nerr.Error())
			}
			return
		}
	}
	rec.Count("classes_survived", 1)
	rec.Seen("rpcs", strings.SplitN(cl.name, ":", 2)[0])
	rec.Case(mon.Digest(cl.name), true)
	if rec.WantSample() {
		rec.Sample(map[string]interface{}{"class": cl.name, "outcome": "server alive, valid requests served, restart replayed the log"})
	}
}

func tailLog(path string, n int) []string {
	b, err := os.ReadFile(path)
	if err != nil {
		return nil
	}
	lines := strings.Split(string(b), "\n")
	var keep []string
	for _, l := range lines {
		if strings.Contains(l, "level=info") && !strings.Contains(l, "panic") {
			continue
		}
		keep = append(keep, l)
	}
	if len(keep) > n {
		keep = keep[:n]
	}
	return keep
}
