// C09 — dataset search equals top-k of the union of its partitions, or fails loudly.
package c09

import (
	"context"
	"errors"
	"fmt"
	"google.golang.org/grpc"
	"io"
	"math"
	"os"
	"runtime"
	"sync"
	"sync/atomic"
	"testing"
	"time"

	"github.com/marekgalovic/anndb/index"
	"github.com/marekgalovic/anndb/index/space"
	amath "github.com/marekgalovic/anndb/math"
	pb "github.com/marekgalovic/anndb/protobuf"
	"github.com/marekgalovic/anndb/utils"
	uuid "github.com/satori/go.uuid"
	"verif/harness/hx"
	"verif/harness/mon"
	"verif/harness/sim"
)

func TestC09(t *testing.T) {
	rec := mon.Open("C09")
	defer rec.Finish(t)
	if only := os.Getenv("VERIF_CASE"); only != "" {
		var c int
		fmt.Sscan(only, &c)
		runTopology(rec, c)
		return
	}
	n := rec.N(10, 150)
	for c := 0; c < n; c++ {
		if rec.Mine(c) {
			runTopology(rec, c)
		}
	}
}

var serial int64

type outcome struct {
	q   amath.Vector
	k   uint
	res index.SearchResult
	err error
}

func runTopology(rec *mon.Recorder, c int) {
	rng := rec.Rand("c09", c)
	nodes := 1 + rng.Intn(4)
	parts := 1 + rng.Intn(8)
	repl := 1 + rng.Intn(3)
	dim := 4
	desc := fmt.Sprintf("case=%d nodes=%d partitions=%d replication=%d", c, nodes, parts, repl)
	rec.Current(desc)
	cl := sim.New(sim.Options{Nodes: nodes, Dir: os.Getenv("VERIF_SCRATCH") + fmt.Sprintf("/c09-%d", c), TickEvery: 10 * time.Millisecond, Seed: rec.Seed() + int64(c)})
	defer cl.Close()
	if err := cl.Start(); err != nil {
		rec.Inconclusive(desc + ": cluster start: " + err.Error())
		return
	}
	dsId, meta, err := cl.CreateDataset(rng.Intn(nodes), uint32(dim), uint32(parts), uint32(repl), pb.Space_Euclidean)
	if err != nil {
		rec.Inconclusive(desc + ": create dataset: " + err.Error())
		return
	}
	sp := space.NewEuclidean()
	ref := hx.Ref{}
	perPart := make([]int, parts)
	ctx := context.Background()
	total := 5 + rng.Intn(12*parts)
	cfg := hx.Cfg{Dim: dim, Metric: 1}
	for i, tries := 0, 0; i < total && tries < 5000; tries++ {
		id := hx.Id(c*100000 + tries)
		p := int(utils.UuidMod(id, uint64(parts)))
		if perPart[p] >= 20 { // each partition stays exact: <= ef and <= 2M+1 items, insert-only
			continue
		}
		v := cfg.Vec(rng)
		md := index.Metadata{"n": fmt.Sprint(tries)}
		ictx, cancel := context.WithTimeout(ctx, 8*time.Second)
		err := cl.Nodes[rng.Intn(nodes)].Dataset(dsId).Insert(ictx, id, v, md)
		cancel()
		if err != nil {
			rec.Inconclusive(fmt.Sprintf("%s: insert failed: %v", desc, err))
			return
		}
		ref[id] = &hx.Item{Vec: v, Meta: md}
		perPart[p]++
		i++
	}
	pids := map[uuid.UUID]int{}
	for i, p := range meta.Partitions {
		pids[uuid.FromBytesOrNil(p.Id)] = i
	}
	// quiescence: every replica of every partition holds all of its items
	if err := cl.WaitFor(20*time.Second, func() bool {
		for _, n := range cl.Nodes {
			d := n.Dataset(dsId)
			for pid, i := range pids {
				for _, nid := range d.VerifPartitionNodeIds(pid) {
					if nid == n.Id {
						if idx := n.PartitionIndex(dsId, pid); idx == nil || idx.Len() != perPart[i] {
							return false
						}
					}
				}
			}
		}
		return true
	}); err != nil {
		rec.Inconclusive(desc + ": replicas did not catch up")
		return
	}
	replayBase := map[string]interface{}{"case": c, "seed": rec.Seed(), "desc": desc, "items_per_partition": perPart}

	newQuery := func() amath.Vector {
		q := cfg.Vec(rng)
		q[0] = float32(atomic.AddInt64(&serial, 1)) // unique: attributes intercepted RPCs to this search
		return q
	}
	// exact top-k oracle
	checkResult := func(o outcome, phase string) bool {
		bf := hx.BruteForce(sp, ref, o.q)
		want := int(o.k)
		if want > len(bf) {
			want = len(bf)
		}
		sym, detail := "", ""
		if s, d := hx.CheckSearch(sp, ref, o.q, o.k, o.res); s != "" {
			sym, detail = s, d
		} else if len(o.res) != want {
			sym, detail = "short-result", fmt.Sprintf("%d items, want %d of %d stored (k=%d)", len(o.res), want, len(ref), o.k)
			if len(o.res) == 0 {
				sym = "empty-result-with-success"
			}
		} else {
			for i := range o.res {
				if math.Float32bits(o.res[i].Score) != math.Float32bits(bf[i].Score) {
					sym, detail = "not-the-k-best", fmt.Sprintf("pos %d score %v, exact top-k has %v", i, o.res[i].Score, bf[i].Score)
					break
				}
			}
		}
		if sym != "" {
			// classification aid: ask every replica's index directly
			diag := []string{}
			for _, n := range cl.Nodes {
				for pid, i := range pids {
					if idx := n.PartitionIndex(dsId, pid); idx != nil {
						direct, derr := hx.Search(idx, o.q, o.k)
						d := idx.VerifDump()
						diag = append(diag, fmt.Sprintf("node %d partition %d: Len=%d stored=%d direct search(k=%d) -> %d items err=%v entrypoint=%v", n.Id, i, idx.Len(), len(d.Vertices), o.k, len(direct), derr, d.HasEntrypoint))
					}
				}
			}
			again, aerr := cl.Nodes[0].Dataset(dsId).Search(ctx, o.q, o.k)
			diag = append(diag, fmt.Sprintf("same search repeated through node 1 -> %d items err=%v", len(again), aerr))
			r := map[string]interface{}{"query": o.q, "k": o.k, "returned": len(o.res), "diagnosis": diag}
			for k, v := range replayBase {
				r[k] = v
			}
			rec.Violation(fmt.Sprintf("search:%s:%s", sym, phase), desc+": "+detail, r)
			return false
		}
		return true
	}
	rpcsFor := func(q amath.Vector) (map[uuid.UUID]int, map[uint64]bool) {
		seen := map[uuid.UUID]int{}
		nodesAsked := map[uint64]bool{}
		for _, n := range cl.Nodes {
			for _, r := range n.RPCLog() {
				if r.Method != "SearchPartitions" {
					continue
				}
				req, ok := r.Req.(*pb.SearchPartitionsRequest)
				if !ok || len(req.Query) == 0 || req.Query[0] != q[0] {
					continue
				}
				nodesAsked[n.Id] = true
				for _, b := range req.PartitionIds {
					seen[uuid.FromBytesOrNil(b)]++
				}
			}
		}
		return seen, nodesAsked
	}
	ks := []uint{1, 5, uint(len(ref)), uint(len(ref) + 3)}

	// phase 1: sequential searches from every node, injected per-node delays permuting completion order
	checked := 0
	for s := 0; s < 40; s++ {
		for _, n := range cl.Nodes {
			if rng.Intn(2) == 0 {
				n.SetFault("SearchPartitions", sim.RPCFault{Delay: time.Duration(rng.Intn(4)) * time.Millisecond})
			} else {
				n.ClearFaults()
			}
		}
		via := cl.Nodes[rng.Intn(nodes)]
		q, k := newQuery(), ks[rng.Intn(len(ks))]
		res, err := via.Dataset(dsId).Search(ctx, q, k)
		if err != nil {
			rec.Violation("search:unexpected-error:sequential", fmt.Sprintf("%s: %v", desc, err), replayBase)
			break
		}
		if !checkResult(outcome{q, k, res, err}, "sequential") {
			break
		}
		seen, _ := rpcsFor(q)
		bad := len(seen) != parts
		for _, cnt := range seen {
			if cnt != 1 {
				bad = true
			}
		}
		if bad {
			rec.Violation("search:partitions-not-consulted-exactly-once", fmt.Sprintf("%s: SearchPartitions RPCs carried %d distinct partitions (counts %v) for a dataset of %d", desc, len(seen), seen, parts), replayBase)
			break
		}
		checked++
	}
	for _, n := range cl.Nodes {
		n.ClearFaults()
	}

	// phase 2: a node fails or answers after the caller's deadline: loud failure whenever it was consulted
	for s := 0; s < 12 && nodes > 1; s++ {
		victim := cl.Nodes[rng.Intn(nodes)]
		mode := []string{"error", "down", "slow"}[s%3]
		switch mode {
		case "error":
			victim.SetFault("SearchPartitions", sim.RPCFault{Err: errors.New("injected search failure")})
		case "down":
			victim.SetFault("SearchPartitions", sim.RPCFault{Err: sim.ErrNodeDown})
		case "slow":
			victim.SetFault("SearchPartitions", sim.RPCFault{Delay: 300 * time.Millisecond})
		}
		via := cl.Nodes[rng.Intn(nodes)]
		q, k := newQuery(), ks[rng.Intn(len(ks))]
		sctx, cancel := context.WithTimeout(ctx, 100*time.Millisecond)
		if mode != "slow" {
			cancel()
			sctx, cancel = context.WithTimeout(ctx, 5*time.Second)
		}
		res, err := via.Dataset(dsId).Search(sctx, q, k)
		cancel()
		victim.ClearFaults()
		_, asked := rpcsFor(q)
		rec.Count("fault_searches", 1)
		if asked[victim.Id] {
			rec.Count("fault_searches_hitting_victim", 1)
			if err == nil {
				rec.Violation("search:success-despite-failed-node:"+mode, fmt.Sprintf("%s: node %d was consulted and its SearchPartitions %s, Search returned %d items without error", desc, victim.Id, mode, len(res)), replayBase)
				break
			}
		} else if err == nil {
			if !checkResult(outcome{q, k, res, err}, "fault-elsewhere") {
				break
			}
			checked++
		}
		if mode == "slow" {
			time.Sleep(320 * time.Millisecond) // let the delayed handler drain
		}
	}

	// phase 2c: a node's answer breaks off in the middle (the connection is lost after a few items) and the node is
	// reachable again at once: the search fails loudly, or whatever it returns is exactly the k best, each item once
	for s := 0; s < 8 && nodes > 1 && rec.Violations() == 0; s++ {
		victim := cl.Nodes[rng.Intn(nodes)]
		victim.SetFault("SearchPartitions", sim.RPCFault{CutAfter: 1 + rng.Intn(3), CutOnce: true})
		via := cl.Nodes[rng.Intn(nodes)]
		q, k := newQuery(), uint(len(ref)+3)
		sctx, cancel := context.WithTimeout(ctx, 5*time.Second)
		res, err := via.Dataset(dsId).Search(sctx, q, k)
		cancel()
		victim.ClearFaults()
		rec.Count("searches_with_an_answer_cut_in_the_middle", 1)
		if err != nil {
			rec.Count("searches_with_an_answer_cut_in_the_middle_failed_loudly", 1)
			continue
		}
		if !checkResult(outcome{q, k, res, err}, "answer-cut-in-the-middle") {
			break
		}
		checked++
	}
	// phase 2b: a node fails just as another node's answer completes. The collector is then busy with that answer
	// (not parked waiting), which is the moment at which a worker that says more or less than "one message per
	// node" is not noticed. The victim's failure is gated on the completion of another node's handler for the
	// same query.
	if nodes > 1 {
		var dmu sync.Mutex
		done := map[float32]chan struct{}{}
		gateFor := func(q0 float32) chan struct{} {
			dmu.Lock()
			defer dmu.Unlock()
			c := done[q0]
			if c == nil {
				c = make(chan struct{})
				done[q0] = c
			}
			return c
		}
		var lateVictim int32 = -1
		for _, n := range cl.Nodes {
			n := n
			n.SetOnStreamDone(func(method string, req interface{}, err error) {
				r, ok := req.(*pb.SearchPartitionsRequest)
				if !ok || method != "SearchPartitions" || len(r.Query) == 0 || int32(n.Idx) == atomic.LoadInt32(&lateVictim) {
					return
				}
				c := gateFor(r.Query[0])
				dmu.Lock()
				select {
				case <-c:
				default:
					close(c)
				}
				dmu.Unlock()
			})
		}
		lateN := rec.N(240, 1200)
		for s := 0; s < lateN; s++ {
			victim := cl.Nodes[rng.Intn(nodes)]
			atomic.StoreInt32(&lateVictim, int32(victim.Idx))
			spin := time.Duration(rng.Intn(120)) * time.Microsecond
			victim.SetFault("SearchPartitions", sim.RPCFault{Err: errors.New("injected late search failure"), Gate: func(gctx context.Context, req interface{}) {
				r, ok := req.(*pb.SearchPartitionsRequest)
				if !ok || len(r.Query) == 0 {
					return
				}
				select {
				case <-gateFor(r.Query[0]):
				case <-time.After(30 * time.Millisecond): // no other node is consulted for this query
				case <-gctx.Done():
				}
				if spin > 0 {
					t0 := time.Now()
					for time.Since(t0) < spin {
					}
				}
			}})
			var via *sim.Node
			for {
				via = cl.Nodes[rng.Intn(nodes)]
				if via != victim {
					break
				}
			}
			q, k := newQuery(), ks[rng.Intn(len(ks))]
			sctx, cancel := context.WithTimeout(ctx, 5*time.Second)
			res, err := via.Dataset(dsId).Search(sctx, q, k)
			cancel()
			victim.ClearFaults()
			_, asked := rpcsFor(q)
			rec.Count("late_failure_searches", 1)
			if asked[victim.Id] {
				rec.Count("late_failure_searches_hitting_victim", 1)
				if err == nil {
					rec.Violation("search:success-despite-failed-node:late-error", fmt.Sprintf("%s: node %d was consulted and failed just as another node's answer completed; Search returned %d items without error", desc, victim.Id, len(res)), replayBase)
					break
				}
			} else if err == nil {
				if !checkResult(outcome{q, k, res, err}, "fault-elsewhere") {
					break
				}
				checked++
			}
		}
		atomic.StoreInt32(&lateVictim, -1)
		for _, n := range cl.Nodes {
			n.ClearFaults()
		}
	}

	// phase 3: stress aimed at the collector / closer interleaving
	for _, procs := range []int{2, 16} {
		prev := runtime.GOMAXPROCS(procs)
		var wg sync.WaitGroup
		var mu sync.Mutex
		var outs []outcome
		queries := make([]amath.Vector, 48*15)
		for i := range queries {
			queries[i] = newQuery()
		}
		for g := 0; g < 48; g++ {
			wg.Add(1)
			go func(g int) {
				defer wg.Done()
				via := cl.Nodes[g%nodes]
				var local []outcome
				for i := 0; i < 15; i++ {
					q := queries[g*15+i]
					k := ks[(g+i)%len(ks)]
					res, err := via.Dataset(dsId).Search(ctx, q, k)
					local = append(local, outcome{q, k, res, err})
				}
				mu.Lock()
				outs = append(outs, local...)
				mu.Unlock()
			}(g)
		}
		wg.Wait()
		runtime.GOMAXPROCS(prev)
		for _, o := range outs {
			if o.err != nil {
				rec.Violation("search:unexpected-error:stress", fmt.Sprintf("%s: %v", desc, o.err), replayBase)
				break
			}
			if !checkResult(o, "stress") {
				break
			}
			checked++
		}
	}
	// phase 4: a node that holds replicas has left the cluster (removed from the membership; the catalogue still
	// lists it). Its partitions cannot be searched there any more: a search either reaches another replica of each
	// of them and is exact, or fails; it never answers from the remaining partitions alone.
	if nodes >= 2 && rec.Violations() == 0 {
		hosts := map[uint64]int{}
		d0 := cl.Nodes[0].Dataset(dsId)
		for pid := range pids {
			for _, nid := range d0.VerifPartitionNodeIds(pid) {
				hosts[nid]++
			}
		}
		var gone *sim.Node
		for _, n := range cl.Nodes[1:] {
			if hosts[n.Id] > 0 {
				gone = n
			}
		}
		// a second dataset that nobody has searched yet (no node holds a search client for it), with a few items
		var ds2 uuid.UUID
		ds2Items := 0
		if gone != nil {
			if id2, _, err := cl.CreateDataset(0, 4, 6, 1, pb.Space_Euclidean); err == nil {
				ds2 = id2
				for i := 0; i < 18; i++ {
					ictx, cancel := context.WithTimeout(ctx, 5*time.Second)
					if cl.Nodes[0].Dataset(ds2).Insert(ictx, hx.Id(c*1000+500+i), []float32{float32(i), 1, 2, 3}, nil) == nil {
						ds2Items++
					}
					cancel()
				}
			}
		}
		if gone != nil {
			var rmErr error
			ok := cl.Guard(20*time.Second, func() { rmErr = cl.Nodes[0].In.NodesManager.RemoveNode(gone.Id) })
			if ok && rmErr == nil {
				var left []*sim.Node
				for _, n := range cl.Nodes {
					if n != gone {
						left = append(left, n)
					}
				}
				cl.WaitFor(10*time.Second, func() bool {
					for _, n := range left {
						if _, listed := n.In.ClusterConn.Nodes()[gone.Id]; listed {
							return false
						}
					}
					return true
				})
				cl.Crash(gone.Idx)
				for s := 0; s < 24; s++ {
					via := left[s%len(left)]
					q, k := newQuery(), ks[s%len(ks)]
					sctx, cancel := context.WithTimeout(ctx, 5*time.Second)
					res, err := via.Dataset(dsId).Search(sctx, q, k)
					cancel()
					rec.Count("searches_after_a_node_left", 1)
					if err != nil {
						rec.Count("searches_after_a_node_left_failed_loudly", 1)
						continue
					}
					if !checkResult(outcome{q, k, res, err}, "after-a-node-left-the-cluster") {
						break
					}
					checked++
				}
				// what a client is told: the never-searched dataset through the public Search service of each remaining
				// node, asking for more items than it holds - an answer without an error holds all of them
				for _, via := range left {
					if ds2Items == 0 || rec.Violations() > 0 {
						break
					}
					cc, derr := grpc.Dial(via.Addr, grpc.WithInsecure())
					if derr != nil {
						continue
					}
					for rep := 0; rep < 3; rep++ {
						sctx, cancel := context.WithTimeout(ctx, 5*time.Second)
						st, err := pb.NewSearchClient(cc).Search(sctx, &pb.SearchRequest{DatasetId: ds2.Bytes(), Query: []float32{1, 1, 2, 3}, K: uint32(ds2Items + 5)})
						got := 0
						for err == nil {
							if _, rerr := st.Recv(); rerr == io.EOF {
								break
							} else if rerr != nil {
								err = rerr
							} else {
								got++
							}
						}
						cancel()
						rec.Count("searches_after_a_node_left_through_the_service", 1)
						if err == nil && got != ds2Items {
							sym := "short-result"
							if got == 0 {
								sym = "empty-result-with-success"
							}
							rec.Violation("search:"+sym+":through-the-service-after-a-node-left-the-cluster", fmt.Sprintf("%s: the Search RPC on node %d for a dataset of %d items (6 partitions, some only on node %d, which has left) answered %d items for k=%d and no error", desc, via.Id, ds2Items, gone.Id, got, ds2Items+5), replayBase)
							break
						}
					}
					cc.Close()
				}
			}
		}
	}
	rec.Count("searches_checked", int64(checked))
	rec.Seen("topologies", fmt.Sprintf("n%d p%d r%d", nodes, parts, repl))
	rec.Case(mon.Digest(desc, perPart), checked >= 50)
	if rec.WantSample() {
		rec.Sample(replayBase)
	}
}
