package dbg

import (
	"fmt"
	"os"
	"runtime"
	"testing"
	"time"

	"verif/harness/sim"
)

func TestDbg(t *testing.T) {
	dir, _ := os.MkdirTemp("", "dbg")
	defer os.RemoveAll(dir)
	cl := sim.New(sim.Options{Nodes: 2, Dir: dir, TickEvery: 5 * time.Millisecond, Seed: 1})
	defer cl.Close()
	if err := cl.Start(); err != nil {
		t.Fatal(err)
	}
	show := func(tag string) {
		for _, m := range cl.Nodes {
			if m.In != nil {
				st := m.In.ZeroGroup.VerifStatus()
				fmt.Printf("%s node %d book=%v zero{term=%d lead=%d commit=%d applied=%d %s}\n", tag, m.Id, m.In.ClusterConn.Nodes(), st.Term, st.Lead, st.Commit, st.Applied, st.RaftState)
				w := cl.WAL(m, [16]byte{})
				if w != nil {
					first, _ := w.FirstIndex()
					last, _ := w.LastIndex()
					ents, err := w.Entries(first, last+1, ^uint64(0))
					for _, e := range ents {
						fmt.Printf("    entry %d term %d type %v len %d\n", e.Index, e.Term, e.Type, len(e.Data))
					}
					fmt.Println("    ", first, last, err, "writes", w.Writes(), "view", w.View().Last, w.View().Term)
				}
			}
		}
	}
	show("before")
	buf := make([]byte, 1<<20)
	buf = buf[:runtime.Stack(buf, true)]
	os.WriteFile("/tmp/dbg-stacks.txt", buf, 0644)
	if err := cl.Restart(0); err != nil {
		fmt.Println("restart:", err)
	}
	time.Sleep(time.Second)
	show("after")
}
