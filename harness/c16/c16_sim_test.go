// C16 on a real cluster: the members a placement draws from are the node's address book, and the address book of a
// member that was behind is rebuilt from the leader's snapshot. After a member that was down while one node left and
// another joined has been caught up by snapshot, a dataset created through it must still be placed on min(R, N)
// distinct current members.
package c16

import (
	"context"
	"fmt"
	"os"
	"testing"
	"time"

	pb "github.com/marekgalovic/anndb/protobuf"
	"github.com/marekgalovic/anndb/storage"
	uuid "github.com/satori/go.uuid"
	"verif/harness/mon"
	"verif/harness/sim"
)

func TestC16Sim(t *testing.T) {
	rec := shared
	n := rec.N(2, 16)
	for c := 0; c < n; c++ {
		if rec.Mine(c + 3) {
			placementAfterCatchUp(rec, c)
		}
	}
}

func placementAfterCatchUp(rec *mon.Recorder, c int) {
	rng := rec.Rand("c16-sim", c)
	desc := fmt.Sprintf("placement-after-catch-up-by-snapshot case=%d nodes=5", c)
	rec.Current(desc)
	cl := sim.New(sim.Options{Nodes: 5, Dir: os.Getenv("VERIF_SCRATCH") + fmt.Sprintf("/c16s-%d", c), TickEvery: 5 * time.Millisecond, Seed: rec.Seed() + int64(c), NoJoinBarrier: true})
	defer cl.Close()
	for i := 0; i < 4; i++ {
		if err := cl.StartNode(i); err != nil {
			rec.Inconclusive(fmt.Sprintf("%s: node %d: %v", desc, i+1, err))
			return
		}
		if i == 0 {
			cl.WaitFor(20*time.Second, func() bool { return cl.Nodes[0].ZeroLeader() != 0 })
		}
		if cl.WaitMembership(i+1, 20*time.Second) != nil {
			rec.Inconclusive(fmt.Sprintf("%s: the first %d nodes do not list each other", desc, i+1))
			return
		}
	}
	// every member has applied the membership log itself (a joiner's book is first filled by the join reply)
	cl.WaitFor(20*time.Second, func() bool {
		var commit uint64
		for _, n := range cl.Nodes[:4] {
			if st := n.In.ZeroGroup.VerifStatus(); st.Commit > commit {
				commit = st.Commit
			}
		}
		for _, n := range cl.Nodes[:4] {
			if n.In.ZeroGroup.VerifStatus().Applied < commit {
				return false
			}
		}
		return commit > 0
	})
	perm := rng.Perm(3)
	lag, gone := cl.Nodes[1+perm[0]], cl.Nodes[1+perm[1]]
	cl.Crash(lag.Idx)
	cl.Teardown(lag.Idx)
	var err error
	if !cl.Guard(20*time.Second, func() { err = cl.Nodes[0].In.NodesManager.RemoveNode(gone.Id) }) || err != nil {
		rec.Inconclusive(fmt.Sprintf("%s: removal of node %d not acknowledged: %v", desc, gone.Id, err))
		return
	}
	cl.Crash(gone.Idx)
	cl.Teardown(gone.Idx)
	if err := cl.StartNode(4); err != nil {
		rec.Inconclusive(fmt.Sprintf("%s: join of node 5: %v", desc, err))
		return
	}
	members := map[uint64]bool{}
	var up []*sim.Node
	for _, n := range cl.Nodes {
		if n != gone {
			members[n.Id] = true
			if n != lag {
				up = append(up, n)
			}
		}
	}
	cl.WaitFor(20*time.Second, func() bool {
		for _, n := range up {
			b := n.In.ClusterConn.Nodes()
			if _, ok := b[5]; !ok || len(b) != 4 {
				return false
			}
		}
		return true
	})
	for _, n := range up {
		cl.TriggerSnapshot(n, uuid.Nil, 0)
	}
	time.Sleep(150 * time.Millisecond)
	// node 1, which every member has an address for, leads the membership group when the member returns
	cl.WaitFor(15*time.Second, func() bool {
		if cl.Nodes[0].ZeroLeader() == 1 {
			return true
		}
		cl.Guard(2*time.Second, func() { cl.Nodes[0].In.ZeroGroup.VerifCampaign() })
		time.Sleep(100 * time.Millisecond)
		return cl.Nodes[0].ZeroLeader() == 1
	})
	lag.NoRejoin = c%2 == 0 // started with -join false: what it knows comes from its own log and the leader's snapshot only
	if err := cl.StartNode(lag.Idx); err != nil {
		rec.Inconclusive(fmt.Sprintf("%s: node %d did not come back: %v", desc, lag.Id, err))
		return
	}
	// The member has caught up when it has applied the membership log up to the commit index the others report now
	// (every change made so far was acknowledged, hence committed, by then). Learning of node 5 alone is not that: a
	// member that re-joins is told of it in the join reply, before the leader's snapshot has reached it.
	var target uint64
	for _, n := range up {
		n := n
		cl.Guard(3*time.Second, func() {
			if c := n.In.ZeroGroup.VerifStatus().Commit; c > target {
				target = c
			}
		})
	}
	caughtUp := func() bool {
		if _, ok := lag.In.ClusterConn.Nodes()[5]; !ok {
			return false
		}
		return lag.In.ZeroGroup.VerifStatus().Applied >= target
	}
	if cl.WaitFor(30*time.Second, caughtUp) != nil {
		diag := ""
		for _, m := range cl.Nodes {
			if m.In != nil && m.In.ZeroGroup != nil && !m.Dead() {
				m := m
				cl.Guard(2*time.Second, func() {
					st := m.In.ZeroGroup.VerifStatus()
					diag += fmt.Sprintf(" | node %d book=%v zero{term=%d lead=%d commit=%d applied=%d %s}", m.Id, m.In.ClusterConn.Nodes(), st.Term, st.Lead, st.Commit, st.Applied, st.RaftState)
				})
			}
		}
		rec.Inconclusive(fmt.Sprintf("%s: node %d did not catch up with the membership log (index %d) and learn of node 5 (started with -join false: %v)%s", desc, lag.Id, target, lag.NoRejoin, diag))
		return
	}
	rec.Count("members_caught_up_before_placing", 1)
	replay := map[string]interface{}{"case": c, "seed": rec.Seed(), "desc": desc, "lag": lag.Id, "gone": gone.Id}
	for _, R := range []uint32{1, 3, 8} {
		var d *storage.Dataset
		var cerr error
		for attempt := 0; attempt < 8 && d == nil; attempt++ {
			cl.Guard(6*time.Second, func() {
				d, cerr = lag.DM().Create(context.Background(), &pb.Dataset{Dimension: 3, PartitionCount: 4, ReplicationFactor: R})
			})
			if d == nil {
				time.Sleep(300 * time.Millisecond)
			}
		}
		if d == nil {
			rec.Inconclusive(fmt.Sprintf("%s: create through node %d: %v", desc, lag.Id, cerr))
			return
		}
		want := int(R)
		if want > len(members) {
			want = len(members)
		}
		for i, p := range d.Meta().GetPartitions() {
			seen := map[uint64]bool{}
			for _, id := range p.GetNodeIds() {
				if !members[id] {
					rec.Violation("placement:non-member:after-catch-up-by-snapshot", fmt.Sprintf("%s: a dataset created through node %d (down while node %d left and node 5 joined, caught up by snapshot) has partition %d on %v; members are %v", desc, lag.Id, gone.Id, i, p.GetNodeIds(), members), replay)
					return
				}
				if seen[id] {
					rec.Violation("placement:duplicate-node:after-catch-up-by-snapshot", fmt.Sprintf("%s: partition %d on %v", desc, i, p.GetNodeIds()), replay)
					return
				}
				seen[id] = true
			}
			if len(p.GetNodeIds()) != want {
				rec.Violation("placement:wrong-replica-count:after-catch-up-by-snapshot", fmt.Sprintf("%s: R=%d: partition %d on %v, want %d of the %d members", desc, R, i, p.GetNodeIds(), want, len(members)), replay)
				return
			}
			rec.Count("placements_checked_on_a_real_cluster", 1)
		}
	}
	rec.Case(mon.Digest(desc), true)
}

// placementBehindAStuckHandler: the members a placement draws from must be the current ones even on a node whose
// membership-notification handler is stuck. Node 3 dies while it leads two-replica partition groups it shares with the
// other nodes and is then removed: the survivors' handlers propose the groups' own membership change and wait for a
// leader that cannot be elected. Node 4 joins afterwards. A dataset created through any member must be placed on
// min(R, 3) distinct nodes out of {1, 2, 4}.
func TestC16SimStuckHandler(t *testing.T) {
	rec := shared
	n := rec.N(2, 12)
	for c := 0; c < n; c++ {
		if rec.Mine(c + 5) {
			placementBehindAStuckHandler(rec, c)
		}
	}
}

func placementBehindAStuckHandler(rec *mon.Recorder, c int) {
	rng := rec.Rand("c16-stuck", c)
	desc := fmt.Sprintf("placement-behind-a-stuck-membership-handler case=%d nodes=4", c)
	rec.Current(desc)
	cl := sim.New(sim.Options{Nodes: 4, Dir: os.Getenv("VERIF_SCRATCH") + fmt.Sprintf("/c16h-%d", c), TickEvery: 5 * time.Millisecond, Seed: rec.Seed() + int64(c), NoJoinBarrier: true})
	defer cl.Close()
	for i := 0; i < 3; i++ {
		if err := cl.StartNode(i); err != nil {
			rec.Inconclusive(fmt.Sprintf("%s: node %d: %v", desc, i+1, err))
			return
		}
		if i == 0 {
			cl.WaitFor(20*time.Second, func() bool { return cl.Nodes[0].ZeroLeader() != 0 })
		}
		if cl.WaitMembership(i+1, 20*time.Second) != nil {
			rec.Inconclusive(fmt.Sprintf("%s: the first %d nodes do not list each other", desc, i+1))
			return
		}
	}
	// two-replica partitions, enough of them that node 3 shares several with each of the others
	var first *storage.Dataset
	var cerr error
	for attempt := 0; attempt < 8 && first == nil; attempt++ {
		cl.Guard(6*time.Second, func() {
			first, cerr = cl.Nodes[0].DM().Create(context.Background(), &pb.Dataset{Dimension: 3, PartitionCount: uint32(12 + rng.Intn(8)), ReplicationFactor: 2})
		})
	}
	if first == nil {
		rec.Inconclusive(fmt.Sprintf("%s: create: %v", desc, cerr))
		return
	}
	dsId := uuid.FromBytesOrNil(first.Meta().GetId())
	// the partition groups elect leaders; node 3 leads some of those it shares
	led := 0
	cl.WaitFor(10*time.Second, func() bool {
		led = 0
		for _, p := range first.Meta().GetPartitions() {
			pid := uuid.FromBytesOrNil(p.GetId())
			if g := cl.Nodes[2].PartitionRaft(dsId, pid); g != nil {
				if st := g.VerifStatus(); st.Lead == 3 {
					led++
				} else if led < 2 {
					g := g
					cl.Guard(2*time.Second, func() { g.VerifCampaign() }) // node 3 asks for the lead of a group it is in
				}
			}
		}
		if led < 2 {
			time.Sleep(50 * time.Millisecond)
		}
		return led >= 2
	})
	if led == 0 {
		rec.Inconclusive(desc + ": node 3 leads none of the partition groups it is in")
		return
	}
	// node 1 must not be the one that goes: it leads the membership group for the rest of the case if it can
	cl.Crash(2)
	cl.Teardown(2)
	time.Sleep(400 * time.Millisecond) // the survivors' election timeouts pass: the shared groups have no leader now
	var err error
	if !cl.Guard(30*time.Second, func() { err = cl.Nodes[0].In.NodesManager.RemoveNode(3) }) || err != nil {
		rec.Inconclusive(fmt.Sprintf("%s: removal of node 3 not acknowledged: %v", desc, err))
		return
	}
	time.Sleep(300 * time.Millisecond) // the handlers are at work (and, on groups node 3 led, stuck)
	if err := cl.StartNode(3); err != nil {
		rec.Inconclusive(fmt.Sprintf("%s: join of node 4: %v", desc, err))
		return
	}
	members := map[uint64]bool{1: true, 2: true, 4: true}
	up := []*sim.Node{cl.Nodes[0], cl.Nodes[1], cl.Nodes[3]}
	if cl.WaitFor(30*time.Second, func() bool {
		for _, n := range up {
			b := n.In.ClusterConn.Nodes()
			if len(b) != 3 {
				return false
			}
			for id := range members {
				if _, ok := b[id]; !ok {
					return false
				}
			}
		}
		return true
	}) != nil {
		rec.Inconclusive(desc + ": the members do not list {1, 2, 4}")
		return
	}
	replay := map[string]interface{}{"case": c, "seed": rec.Seed(), "desc": desc, "partition_groups_node_3_led": led}
	for _, via := range up[:2] {
		for _, R := range []uint32{2, 3, 5} {
			var d *storage.Dataset
			for attempt := 0; attempt < 8 && d == nil; attempt++ {
				cl.Guard(6*time.Second, func() {
					d, cerr = via.DM().Create(context.Background(), &pb.Dataset{Dimension: 3, PartitionCount: 4, ReplicationFactor: R})
				})
				if d == nil {
					time.Sleep(300 * time.Millisecond)
				}
			}
			if d == nil {
				rec.Inconclusive(fmt.Sprintf("%s: create through node %d: %v", desc, via.Id, cerr))
				return
			}
			want := int(R)
			if want > len(members) {
				want = len(members)
			}
			for i, p := range d.Meta().GetPartitions() {
				seen := map[uint64]bool{}
				for _, id := range p.GetNodeIds() {
					if !members[id] {
						rec.Violation("placement:non-member:behind-a-stuck-membership-handler", fmt.Sprintf("%s: a dataset created through node %d (which lists %v) has partition %d on %v", desc, via.Id, via.In.ClusterConn.Nodes(), i, p.GetNodeIds()), replay)
						return
					}
					if seen[id] {
						rec.Violation("placement:duplicate-node:behind-a-stuck-membership-handler", fmt.Sprintf("%s: partition %d on %v", desc, i, p.GetNodeIds()), replay)
						return
					}
					seen[id] = true
				}
				if len(p.GetNodeIds()) != want {
					rec.Violation("placement:wrong-replica-count:behind-a-stuck-membership-handler", fmt.Sprintf("%s: R=%d through node %d (which lists %v): partition %d on %v, want %d of the %d members", desc, R, via.Id, via.In.ClusterConn.Nodes(), i, p.GetNodeIds(), want, len(members)), replay)
					return
				}
				rec.Count("placements_checked_behind_a_stuck_handler", 1)
			}
		}
	}
	rec.Case(mon.Digest(desc), true)
}

// placementWhileAMemberIsDown: a member whose process is down is still a member (nothing has removed it): placement
// draws from the membership, not from what is reachable at the moment. Three nodes that have all talked to each other;
// node 3 goes down; datasets created through the other two are placed on min(R, 3) distinct nodes of {1, 2, 3}, and
// over all their partitions node 3 gets its share.
func TestC16SimMemberDown(t *testing.T) {
	rec := shared
	n := rec.N(2, 12)
	for c := 0; c < n; c++ {
		if rec.Mine(c + 7) {
			placementWhileAMemberIsDown(rec, c)
		}
	}
}

func placementWhileAMemberIsDown(rec *mon.Recorder, c int) {
	rng := rec.Rand("c16-down", c)
	desc := fmt.Sprintf("placement-while-a-member-is-down case=%d nodes=3", c)
	rec.Current(desc)
	cl := sim.New(sim.Options{Nodes: 3, Dir: os.Getenv("VERIF_SCRATCH") + fmt.Sprintf("/c16d-%d", c), TickEvery: 5 * time.Millisecond, Seed: rec.Seed() + int64(c)})
	defer cl.Close()
	if err := cl.Start(); err != nil {
		rec.Inconclusive(desc + ": cluster start: " + err.Error())
		return
	}
	// every node talks to every other one: a replicated dataset written and searched through each node
	dsId, _, err := cl.CreateDataset(0, 3, 3, 3, pb.Space_Euclidean)
	if err != nil {
		rec.Inconclusive(desc + ": create: " + err.Error())
		return
	}
	for i, n := range cl.Nodes {
		for k := 0; k < 4; k++ {
			ictx, cancel := context.WithTimeout(context.Background(), 5*time.Second)
			n.Dataset(dsId).Insert(ictx, uuid.NewV4(), []float32{float32(i), float32(k), 1}, nil)
			cancel()
		}
		sctx, cancel := context.WithTimeout(context.Background(), 5*time.Second)
		n.Dataset(dsId).Search(sctx, []float32{1, 2, 3}, 5)
		cancel()
	}
	down := cl.Nodes[1+rng.Intn(2)]
	cl.Crash(down.Idx)
	cl.Teardown(down.Idx)
	time.Sleep(time.Duration(300+rng.Intn(600)) * time.Millisecond) // the others' connections to it have failed by now
	members := map[uint64]bool{1: true, 2: true, 3: true}
	replay := map[string]interface{}{"case": c, "seed": rec.Seed(), "desc": desc, "down": down.Id}
	onDown, total := 0, 0
	for _, via := range cl.Nodes {
		if via == down {
			continue
		}
		for _, R := range []uint32{1, 2, 3, 4} {
			var d *storage.Dataset
			var cerr error
			for attempt := 0; attempt < 8 && d == nil; attempt++ {
				cl.Guard(6*time.Second, func() {
					d, cerr = via.DM().Create(context.Background(), &pb.Dataset{Dimension: 3, PartitionCount: 6, ReplicationFactor: R})
				})
				if d == nil {
					time.Sleep(300 * time.Millisecond)
				}
			}
			if d == nil {
				rec.Inconclusive(fmt.Sprintf("%s: create through node %d: %v", desc, via.Id, cerr))
				return
			}
			want := int(R)
			if want > 3 {
				want = 3
			}
			for i, p := range d.Meta().GetPartitions() {
				seen := map[uint64]bool{}
				for _, id := range p.GetNodeIds() {
					if !members[id] || seen[id] {
						rec.Violation("placement:duplicate-or-non-member:while-a-member-is-down", fmt.Sprintf("%s: partition %d on %v", desc, i, p.GetNodeIds()), replay)
						return
					}
					seen[id] = true
					if id == down.Id {
						onDown++
					}
				}
				total++
				if len(p.GetNodeIds()) != want {
					rec.Violation("placement:wrong-replica-count:while-a-member-is-down", fmt.Sprintf("%s: R=%d through node %d while member %d is down (not removed): partition %d on %v, want %d of the 3 members", desc, R, via.Id, down.Id, i, p.GetNodeIds(), want), replay)
					return
				}
				rec.Count("placements_checked_while_a_member_is_down", 1)
			}
		}
	}
	// 48 partitions, 12 of them with one replica and 12 with two: the member that is down is drawn like the others
	if onDown == 0 {
		rec.Violation("placement:member-never-drawn:while-a-member-is-down", fmt.Sprintf("%s: none of %d partitions created while member %d was down (not removed) was placed on it", desc, total, down.Id), replay)
		return
	}
	rec.Case(mon.Digest(desc), true)
}
