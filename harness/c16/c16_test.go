// C16 — every partition is placed on min(R, N) distinct member nodes,
// independently. Observed at DatasetManager.Create over a scripted raft.Group.
package c16

import (
	"context"
	"errors"
	"fmt"
	badger "github.com/dgraph-io/badger/v2"
	"math"
	"math/rand"
	"os"
	"sort"
	"sync"
	"testing"

	"github.com/golang/protobuf/proto"
	"github.com/marekgalovic/anndb/cluster"
	pb "github.com/marekgalovic/anndb/protobuf"
	"github.com/marekgalovic/anndb/storage"
	"github.com/marekgalovic/anndb/storage/raft"
	"verif/harness/mon"
)

// scriptedGroup captures the proposal bytes exactly as the other replicas
// would receive them; it never commits, so Create returns its error and no
// dataset (hence no partition raft group) is created.
type scriptedGroup struct {
	mu      *sync.Mutex // when set, proposals are applied one at a time (as a raft log applies them)
	last    []byte
	apply   bool // commit and apply every proposal at once (what a one-member membership group does)
	process raft.ProcessFn
}

var errScripted = errors.New("scripted group: proposal captured")

func (g *scriptedGroup) RegisterProcessFn(f raft.ProcessFn) error       { g.process = f; return nil }
func (g *scriptedGroup) RegisterProcessSnapshotFn(raft.ProcessFn) error { return nil }
func (g *scriptedGroup) RegisterSnapshotFn(raft.SnapshotFn) error       { return nil }
func (g *scriptedGroup) LeaderId() uint64                               { return 1 }
func (g *scriptedGroup) Propose(ctx context.Context, data []byte) error {
	if g.mu != nil {
		g.mu.Lock()
		defer g.mu.Unlock()
	}
	g.last = append([]byte(nil), data...)
	if g.apply && g.process != nil {
		return g.process(data)
	}
	return errScripted
}

// appliedCreates: as a running node does, every create is committed and applied before the next one is placed (the
// local node is not a member, so applying loads no raft group). Whatever applying a create does, consecutive creates
// must still be placed independently of each other and of themselves.
func appliedCreates(rec *mon.Recorder, N int) {
	conn, err := cluster.NewConn(999983, "127.0.0.1:1", "")
	if err != nil {
		return
	}
	for i := 1; i <= N; i++ {
		conn.AddNode(uint64(1000+i*7), fmt.Sprintf("127.0.0.1:%d", 2000+i))
	}
	alloc := storage.NewAllocator(conn)
	g := &scriptedGroup{apply: true}
	dir, err := os.MkdirTemp(os.Getenv("VERIF_SCRATCH"), "c16-applied-")
	if err != nil {
		rec.Inconclusive("applied creates: " + err.Error())
		return
	}
	defer os.RemoveAll(dir)
	opts := badger.LSMOnlyOptions(dir).WithSyncWrites(false)
	opts.Logger = nil
	db, err := badger.Open(opts)
	if err != nil {
		rec.Inconclusive("applied creates: " + err.Error())
		return
	}
	defer db.Close()
	dm, err := storage.NewDatasetManager(g, db, nil, conn, alloc)
	if err != nil {
		rec.Inconclusive(fmt.Sprintf("applied creates N=%d: %v", N, err))
		return
	}
	T := rec.N(200, 1200)
	for _, cfg := range [][2]int{{1, 2}, {2, 2}, {3, 8}} {
		R, P := cfg[0], cfg[1]
		want := R
		if N < R {
			want = N
		}
		C := binom(N, want)
		if C <= 1 {
			continue
		}
		samePair, sameAll, sameAsPrevious := 0, 0, 0
		prev := ""
		for call := 0; call < T; call++ {
			g.last = nil
			if _, err := dm.Create(context.Background(), &pb.Dataset{Dimension: 4, PartitionCount: uint32(P), ReplicationFactor: uint32(R)}); err != nil || g.last == nil {
				rec.Violation("create:unexpected-result:applied", fmt.Sprintf("N=%d R=%d P=%d: err=%v", N, R, P, err), nil)
				return
			}
			pl, err := placement(g)
			if err != nil || len(pl) != P {
				rec.Violation("create:proposal-malformed", fmt.Sprintf("N=%d R=%d P=%d: %v", N, R, P, err), nil)
				return
			}
			keys := make([]string, P)
			for i, ids := range pl {
				keys[i] = setKey(ids)
			}
			all := true
			for i := 1; i < P; i++ {
				if keys[i] != keys[0] {
					all = false
				}
			}
			if all {
				sameAll++
			}
			if keys[0] == keys[1] {
				samePair++
			}
			whole := fmt.Sprint(keys)
			if whole == prev {
				sameAsPrevious++
			}
			prev = whole
			rec.Count("creates_checked", 1)
			rec.Count("applied_creates_checked", 1)
		}
		desc := map[string]interface{}{"N": N, "R": R, "P": P, "calls": T, "seed": rec.Seed(), "applied": true}
		band := math.Sqrt(math.Log(2/1e-10) / (2 * float64(T)))
		if rate := float64(samePair) / float64(T); math.Abs(rate-1/C) > band {
			rec.Violation("independence:pair-coincidence-rate:creates-applied-in-between", fmt.Sprintf("N=%d R=%d P=%d: partitions 0 and 1 coincide in %.3f of creates, expected %.3f +- %.3f", N, R, P, rate, 1/C, band), desc)
		}
		if math.Pow(C, float64(P-1)) >= 1e12 && sameAll > 0 {
			rec.Violation("independence:all-partitions-identical:creates-applied-in-between", fmt.Sprintf("N=%d R=%d P=%d: %d of %d creates placed every partition on the same node set", N, R, P, sameAll, T), desc)
		}
		// a create that repeats the previous one's whole placement has probability C^-P
		if p := math.Pow(C, -float64(P)); float64(T)*p < 1e-9 && sameAsPrevious > 0 {
			rec.Violation("independence:create-repeats-the-previous-placement", fmt.Sprintf("N=%d R=%d P=%d: %d of %d creates placed their partitions exactly as the create before (probability %.1e each under independence)", N, R, P, sameAsPrevious, T, p), desc)
		} else if rate := float64(sameAsPrevious) / float64(T); rate-p > band {
			rec.Violation("independence:create-repeats-the-previous-placement", fmt.Sprintf("N=%d R=%d P=%d: %.3f of creates repeat the placement of the create before, expected %.3f +- %.3f", N, R, P, rate, p, band), desc)
		}
		rec.Count("independence_tests", 1)
	}
	// several clients create datasets through this node at once (one handler goroutine each): every placement still
	// has min(R, N) distinct members per partition
	if N >= 2 {
		members := map[uint64]bool{}
		for i := 1; i <= N; i++ {
			members[uint64(1000+i*7)] = true
		}
		var mu sync.Mutex
		g.mu = &mu
		rounds := rec.N(40, 200)
		for round := 0; round < rounds; round++ {
			var wg sync.WaitGroup
			bad := make(chan string, 8)
			for k := 0; k < 6; k++ {
				wg.Add(1)
				go func() {
					defer wg.Done()
					d, err := dm.Create(context.Background(), &pb.Dataset{Dimension: 4, PartitionCount: 16, ReplicationFactor: 8})
					if err != nil || d == nil {
						return
					}
					want := 8
					if N < want {
						want = N
					}
					for i, p := range d.Meta().GetPartitions() {
						seen := map[uint64]bool{}
						for _, id := range p.GetNodeIds() {
							if seen[id] || !members[id] {
								select {
								case bad <- fmt.Sprintf("N=%d partition %d placed on %v", N, i, p.GetNodeIds()):
								default:
								}
								return
							}
							seen[id] = true
						}
						if len(p.GetNodeIds()) != want {
							select {
							case bad <- fmt.Sprintf("N=%d partition %d placed on %v, want %d nodes", N, i, p.GetNodeIds(), want):
							default:
							}
							return
						}
					}
				}()
			}
			wg.Wait()
			rec.Count("concurrent_creates_checked", 6)
			select {
			case what := <-bad:
				rec.Violation("placement:duplicate-or-non-member:concurrent-creates", what, map[string]interface{}{"N": N, "seed": rec.Seed()})
				return
			default:
			}
		}
	}
}

func placement(g *scriptedGroup) ([][]uint64, error) {
	var change pb.DatasetManagerChange
	if err := proto.Unmarshal(g.last, &change); err != nil {
		return nil, err
	}
	if change.Type != pb.DatasetManagerChangeType_DatasetManagerCreateDataset {
		return nil, fmt.Errorf("unexpected change type %v", change.Type)
	}
	var ds pb.Dataset
	if err := proto.Unmarshal(change.Data, &ds); err != nil {
		return nil, err
	}
	out := make([][]uint64, len(ds.Partitions))
	for i, p := range ds.Partitions {
		out[i] = append([]uint64(nil), p.NodeIds...)
	}
	return out, nil
}

func binom(n, k int) float64 {
	if k > n {
		return 0
	}
	r := 1.0
	for i := 0; i < k; i++ {
		r = r * float64(n-i) / float64(i+1)
	}
	return r
}

func setKey(ids []uint64) string {
	s := append([]uint64(nil), ids...)
	sort.Slice(s, func(i, j int) bool { return s[i] < s[j] })
	return fmt.Sprint(s)
}

var shared *mon.Recorder

func TestMain(m *testing.M) {
	shared = mon.Open("C16")
	code := m.Run()
	shared.Close()
	os.Exit(code)
}

func TestC16(t *testing.T) {
	rec := shared
	rand.Seed(rec.Seed()) // the allocator shuffles with the global source
	T := rec.N(60, 400)   // calls per configuration
	caseNo := 0
	for N := 1; N <= 16; N++ {
		if !rec.Mine(N) {
			continue
		}
		conn, err := cluster.NewConn(1, "127.0.0.1:1", "")
		if err != nil {
			t.Fatal(err)
		}
		members := map[uint64]bool{}
		for i := 1; i <= N; i++ {
			id := uint64(1000 + i*7)
			if i == 1 {
				id = 1
			}
			conn.AddNode(id, fmt.Sprintf("127.0.0.1:%d", 2000+i))
			members[id] = true
		}
		alloc := storage.NewAllocator(conn)
		g := &scriptedGroup{}
		dm, err := storage.NewDatasetManager(g, nil, nil, conn, alloc)
		if err != nil {
			t.Fatal(err)
		}
		for R := 1; R <= 8; R++ {
			for _, P := range []int{1, 2, 3, 8, 64} {
				caseNo++
				want := R
				if N < R {
					want = N
				}
				load := map[uint64]int{}
				sameAll, samePair := 0, 0
				distinctSets := map[string]bool{}
				var sample [][]uint64
				bad := false
				for call := 0; call < T && !bad; call++ {
					g.last = nil
					_, err := dm.Create(context.Background(), &pb.Dataset{Dimension: 4, PartitionCount: uint32(P), ReplicationFactor: uint32(R)})
					if err != errScripted || g.last == nil {
						rec.Violation("create:unexpected-result", fmt.Sprintf("N=%d R=%d P=%d: err=%v", N, R, P, err), nil)
						bad = true
						break
					}
					pl, err := placement(g)
					if err != nil || len(pl) != P {
						rec.Violation("create:proposal-malformed", fmt.Sprintf("N=%d R=%d P=%d: %v, %d partitions", N, R, P, err, len(pl)), nil)
						bad = true
						break
					}
					if call == 0 {
						sample = pl
						if len(sample) > 4 {
							sample = sample[:4]
						}
					}
					keys := make([]string, P)
					for i, ids := range pl {
						seen := map[uint64]bool{}
						for _, id := range ids {
							if seen[id] {
								rec.Violation("placement:duplicate-node", fmt.Sprintf("N=%d R=%d P=%d partition %d: %v", N, R, P, i, ids), map[string]interface{}{"N": N, "R": R, "P": P, "placement": pl})
								bad = true
							}
							if !members[id] {
								rec.Violation("placement:non-member", fmt.Sprintf("N=%d R=%d P=%d partition %d: %v", N, R, P, i, ids), map[string]interface{}{"N": N, "R": R, "P": P, "placement": pl})
								bad = true
							}
							seen[id] = true
							load[id]++
						}
						if len(ids) != want {
							rec.Violation("placement:wrong-replica-count", fmt.Sprintf("N=%d R=%d P=%d partition %d has %d nodes, want %d", N, R, P, i, len(ids), want), map[string]interface{}{"N": N, "R": R, "P": P, "placement": pl})
							bad = true
						}
						keys[i] = setKey(ids)
						distinctSets[keys[i]] = true
					}
					if P >= 2 {
						all := true
						for i := 1; i < P; i++ {
							if keys[i] != keys[0] {
								all = false
							}
						}
						if all {
							sameAll++
						}
						if keys[0] == keys[1] {
							samePair++
						}
					}
					rec.Count("creates_checked", 1)
					rec.Count("partitions_checked", int64(P))
				}
				if bad {
					continue
				}
				// independence, fixed thresholds
				C := binom(N, want)
				desc := map[string]interface{}{"N": N, "R": R, "P": P, "calls": T, "first_placement": sample, "seed": rec.Seed()}
				if P >= 2 && C > 1 {
					// (i) all P partitions identical has probability C^-(P-1) per call
					if math.Pow(C, float64(P-1)) >= 1e12 && sameAll > 0 {
						rec.Violation("independence:all-partitions-identical", fmt.Sprintf("N=%d R=%d P=%d: %d of %d creates placed every partition on the same node set (probability <= 1e-12 each under independence)", N, R, P, sameAll, T), desc)
					}
					// (ii) partitions 0 and 1 coincide with probability 1/C; Hoeffding, delta = 1e-10
					band := math.Sqrt(math.Log(2/1e-10) / (2 * float64(T)))
					if rate := float64(samePair) / float64(T); math.Abs(rate-1/C) > band {
						rec.Violation("independence:pair-coincidence-rate", fmt.Sprintf("N=%d R=%d P=%d: partitions 0 and 1 coincide in %.3f of creates, expected %.3f +- %.3f", N, R, P, rate, 1/C, band), desc)
					}
					rec.Count("independence_tests", 1)
				}
				if want < N {
					// (iii) per-node load: each (create, partition) includes a node with probability want/N
					n := float64(T * P)
					band := math.Sqrt(math.Log(2*float64(N)/1e-10) / (2 * n))
					for id := range members {
						if f := float64(load[id]) / n; math.Abs(f-float64(want)/float64(N)) > band {
							sym := "spread:node-load"
							if P >= 2 {
								// with P identical copies per create the load has P times
								// the variance; reported under the same root cause
								sym = "spread:node-load-multi-partition"
							}
							rec.Violation(sym, fmt.Sprintf("N=%d R=%d P=%d: node %d holds %.3f of the partitions, expected %.3f +- %.3f", N, R, P, id, f, float64(want)/float64(N), band), desc)
							break
						}
					}
					rec.Count("spread_tests", 1)
				}
				rec.Case(mon.Digest(N, R, P), true)
				if rec.WantSample() && P == 3 && N >= 4 {
					rec.Sample(desc)
				}
			}
		}
		appliedCreates(rec, N)
		// ---- membership history: nodes leave and join between creates (some were
		// dialled before they left, some never); every placement uses exactly the
		// members of the moment
		hrng := rec.Rand("c16-history", N)
		nextId := uint64(5000)
		steps := rec.N(24, 120)
		for step := 0; step < steps; step++ {
			var ids []uint64
			for id := range members {
				if id != 1 {
					ids = append(ids, id)
				}
			}
			sort.Slice(ids, func(i, j int) bool { return ids[i] < ids[j] })
			what := ""
			switch {
			case len(ids) > 0 && hrng.Intn(5) < 3:
				id := ids[hrng.Intn(len(ids))]
				dialled := hrng.Intn(2) == 0
				if dialled {
					conn.Dial(id) // non-blocking: caches a client connection for the node
				}
				conn.RemoveNode(id)
				delete(members, id)
				what = fmt.Sprintf("remove %d (dialled before: %v)", id, dialled)
			default:
				nextId += uint64(1 + hrng.Intn(9))
				conn.AddNode(nextId, fmt.Sprintf("127.0.0.1:%d", 3000+step))
				members[nextId] = true
				what = fmt.Sprintf("add %d", nextId)
			}
			for _, R := range []int{1, 3, 8} {
				P := []int{3, 16}[hrng.Intn(2)]
				want := R
				if len(members) < R {
					want = len(members)
				}
				g.last = nil
				_, err := dm.Create(context.Background(), &pb.Dataset{Dimension: 4, PartitionCount: uint32(P), ReplicationFactor: uint32(R)})
				if err != errScripted || g.last == nil {
					rec.Violation("create:unexpected-result", fmt.Sprintf("after %s: err=%v", what, err), nil)
					break
				}
				pl, err := placement(g)
				if err != nil || len(pl) != P {
					rec.Violation("create:proposal-malformed", fmt.Sprintf("after %s: %v, %d partitions", what, err, len(pl)), nil)
					break
				}
				var cur []uint64
				for id := range members {
					cur = append(cur, id)
				}
				sort.Slice(cur, func(i, j int) bool { return cur[i] < cur[j] })
				info := map[string]interface{}{"initial_N": N, "step": step, "after": what, "members": cur, "R": R, "P": P, "placement": pl, "seed": rec.Seed()}
				for i, ids := range pl {
					seen := map[uint64]bool{}
					for _, id := range ids {
						if seen[id] {
							rec.Violation("placement:duplicate-node:after-membership-change", fmt.Sprintf("after %s, members %v, R=%d: partition %d placed on %v", what, cur, R, i, ids), info)
						}
						if !members[id] {
							rec.Violation("placement:non-member:after-membership-change", fmt.Sprintf("after %s, members %v, R=%d: partition %d placed on %v", what, cur, R, i, ids), info)
						}
						seen[id] = true
					}
					if len(ids) != want {
						rec.Violation("placement:wrong-replica-count:after-membership-change", fmt.Sprintf("after %s, members %v, R=%d: partition %d has %d nodes, want %d", what, cur, R, i, len(ids), want), info)
					}
				}
				rec.Count("creates_checked_after_membership_changes", 1)
			}
		}
		alloc.Stop()
	}
}
