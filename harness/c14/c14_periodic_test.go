// C14 on real processes, the periodic snapshot: no harness-triggered compaction here. The servers run as a user runs
// them, so the only snapshots of the membership-and-catalogue log are the ones the group's own ticker takes (every
// ten seconds, once more than 5000 entries have accumulated since the previous one). The catalogue log is filled past
// that threshold, a second node joins and is given the missing replicas of under-replicated datasets (replica-set
// additions), more creations and deletions follow, and once a server's log shows that the ticker took a snapshot the
// server is killed and restarted on its data directory: it restores that snapshot and replays the rest. Every node
// must then list the same catalogue - same ids, dimensions, partition ids and replica assignments - and everything
// acknowledged.
//
// Waiting for the ticker is the only wall-clock dependency; when no periodic snapshot shows up in the watchdog the
// case is inconclusive, never a violation.
package c14

import (
	"context"
	"fmt"
	"os"
	"path/filepath"
	"strings"
	"sync"
	"sync/atomic"
	"testing"
	"time"

	pb "github.com/marekgalovic/anndb/protobuf"
	uuid "github.com/satori/go.uuid"
	"verif/harness/mon"
	"verif/harness/proc"
)

func TestC14Periodic(t *testing.T) {
	rec := shared
	if os.Getenv("VERIF_CASE") != "" {
		return
	}
	if proc.Bin() == "" {
		rec.Inconclusive("real-process part skipped: VERIF_ANNDB_BIN not set")
		return
	}
	n := rec.N(2, 12)
	for c := 0; c < n; c++ {
		if rec.Mine(c) {
			periodicCase(rec, c)
		}
	}
}

func snapshotLines(s *proc.Server) int {
	b, _ := os.ReadFile(s.LogPath())
	return strings.Count(string(b), "Snapshot. Size:")
}

func periodicCase(rec *mon.Recorder, c int) {
	rng := rec.Rand("c14-periodic", c)
	fill := 5050 + rng.Intn(400)
	tail := 40 + rng.Intn(420)
	desc := fmt.Sprintf("proc-periodic-snapshot case=%d fill=%d tail=%d", c, fill, tail)
	rec.Current(desc)
	var steps []string
	var srv []*proc.Server
	violation := func(sym, detail string) {
		logs := map[string][]string{}
		for _, s := range srv {
			logs[fmt.Sprint(s.Id)] = tailLog(s, 50)
		}
		rec.Violation("proc:"+sym+":periodic-snapshot", desc+": "+detail, map[string]interface{}{"desc": desc, "seed": rec.Seed(), "steps": steps, "server_log_tails": logs})
	}
	dir := filepath.Join(os.Getenv("VERIF_SCRATCH"), fmt.Sprintf("c14periodic-%d", c))
	defer os.RemoveAll(dir)
	defer func() {
		for _, s := range srv {
			s.Kill()
		}
	}()
	start := func(id uint64, join string) *proc.Server {
		s := proc.New(id, filepath.Join(dir, fmt.Sprintf("n%d", id)), join)
		srv = append(srv, s)
		if err := s.Start(); err != nil {
			rec.Inconclusive(desc + ": start: " + err.Error())
			return nil
		}
		if err := s.WaitServing(60 * time.Second); err != nil {
			rec.Inconclusive(desc + ": fresh server not serving: " + err.Error())
			return nil
		}
		return s
	}
	waitFor := func(d time.Duration, cond func() bool) bool {
		deadline := time.Now().Add(d)
		for time.Now().Before(deadline) {
			if cond() {
				return true
			}
			time.Sleep(200 * time.Millisecond)
		}
		return cond()
	}
	n1 := start(1, "")
	if n1 == nil {
		return
	}
	acked := map[uuid.UUID]entry{}
	deleted := map[uuid.UUID]bool{}
	dimCtr := uint32(10)
	create := func(s *proc.Server, parts, repl uint32) (entry, bool) {
		dimCtr++
		m, err := s.Create(dimCtr, parts, repl, pb.Space_Euclidean, 10*time.Second)
		if err != nil {
			// an unknown outcome would make the comparison ambiguous: the case ends as inconclusive
			return entry{}, false
		}
		e := fromMeta(m)
		acked[e.id] = e
		steps = append(steps, fmt.Sprintf("create dim=%d parts=%d repl=%d -> %s", dimCtr, parts, repl, e.id))
		return e, true
	}
	// datasets that want two replicas while the cluster has one member
	var under []uuid.UUID
	for i := 0; i < 1+rng.Intn(3); i++ {
		e, ok := create(n1, uint32(1+rng.Intn(3)), 2)
		if !ok {
			rec.Inconclusive(desc + ": a creation on the single node was not acknowledged")
			return
		}
		under = append(under, e.id)
	}
	// fill the catalogue log: deletions of unknown ids are proposed, committed and applied like any other change
	filler := func(s *proc.Server, n int) int64 {
		var done int64
		var wg sync.WaitGroup
		per := n / 16
		for w := 0; w < 16; w++ {
			cnt := per
			if w == 0 {
				cnt += n - per*16
			}
			wg.Add(1)
			go func(cnt int) {
				defer wg.Done()
				cli := pb.NewDatasetManagerClient(s.Conn())
				for i := 0; i < cnt; i++ {
					ctx, cancel := context.WithTimeout(context.Background(), 10*time.Second)
					cli.Delete(ctx, &pb.UUIDRequest{Id: uuid.NewV4().Bytes()})
					cancel()
					atomic.AddInt64(&done, 1)
				}
			}(cnt)
		}
		wg.Wait()
		return done
	}
	filler(n1, fill)
	steps = append(steps, fmt.Sprintf("%d deletions of unknown ids", fill))
	n2 := start(2, n1.Addr())
	if n2 == nil {
		return
	}
	steps = append(steps, "node 2 joined")
	// the missing replicas are placed on node 2
	placed := waitFor(60*time.Second, func() bool {
		l, err := listOf(n1)
		if err != nil {
			return false
		}
		for _, id := range under {
			e, ok := l[id]
			if !ok {
				return false
			}
			for _, nodes := range e.nodes {
				if len(nodes) < 2 {
					return false
				}
			}
		}
		return true
	})
	if !placed {
		rec.Inconclusive(desc + ": the under-replicated datasets were not given a replica on node 2 within a minute")
		return
	}
	rec.Count("periodic_replica_set_additions_before_the_snapshot", int64(len(under)))
	// tail: creations, deletions of some of them, and filler
	for left := tail; left > 0; {
		switch rng.Intn(4) {
		case 0:
			if _, ok := create(srv[rng.Intn(2)], uint32(1+rng.Intn(2)), uint32(1+rng.Intn(2))); !ok {
				rec.Inconclusive(desc + ": a creation in the tail was not acknowledged")
				return
			}
			left--
		case 1:
			for id := range acked {
				isUnder := false
				for _, u := range under {
					isUnder = isUnder || uuid.Equal(u, id)
				}
				if isUnder {
					continue
				}
				ctx, cancel := context.WithTimeout(context.Background(), 10*time.Second)
				_, err := pb.NewDatasetManagerClient(srv[rng.Intn(2)].Conn()).Delete(ctx, &pb.UUIDRequest{Id: id.Bytes()})
				cancel()
				if err != nil {
					rec.Inconclusive(desc + ": a deletion in the tail was not acknowledged")
					return
				}
				delete(acked, id)
				deleted[id] = true
				steps = append(steps, fmt.Sprintf("delete %s", id))
				left--
				break
			}
		default:
			k := 1 + rng.Intn(40)
			if k > left {
				k = left
			}
			filler(srv[rng.Intn(2)], k)
			left -= k
		}
	}
	// the ticker's snapshot
	victims := []*proc.Server{}
	if !waitFor(45*time.Second, func() bool { return snapshotLines(n2) > 0 || snapshotLines(n1) > 0 }) {
		rec.Inconclusive(desc + ": no periodic snapshot was logged within the watchdog")
		return
	}
	time.Sleep(300 * time.Millisecond)
	for _, s := range srv {
		if snapshotLines(s) > 0 {
			victims = append(victims, s)
			rec.Count("periodic_snapshots_observed", 1)
		}
	}
	// restart whoever compacted (one at a time; the other keeps the group's history)
	for _, v := range victims {
		v.Kill()
		steps = append(steps, fmt.Sprintf("node %d killed after its periodic snapshot", v.Id))
		if v.Id != 1 {
			v.Join = []string{"false", n1.Addr()}[rng.Intn(2)]
		}
		if err := v.Start(); err != nil {
			rec.Inconclusive(desc + ": restart: " + err.Error())
			return
		}
		if err := v.WaitServing(60 * time.Second); err != nil {
			if !v.Alive() {
				violation("dies-on-restart", "the restarted server exited: "+v.ExitReason())
				return
			}
			rec.Inconclusive(desc + ": restarted server not serving: " + err.Error())
			return
		}
		rec.Count("periodic_restarts_from_a_ticker_snapshot", 1)
	}
	var marker uuid.UUID
	for attempt := 0; attempt < 10 && uuid.Equal(marker, uuid.Nil); attempt++ {
		if e, ok := create(n1, 1, 1); ok {
			marker = e.id
		} else {
			time.Sleep(500 * time.Millisecond)
		}
	}
	if uuid.Equal(marker, uuid.Nil) {
		for _, s := range srv {
			if !s.Alive() {
				violation("dies-after-restart", fmt.Sprintf("node %d exited: %s", s.Id, s.ExitReason()))
				return
			}
		}
		rec.Inconclusive(desc + ": no catalogue entry could be created after the restarts")
		return
	}
	if !waitFor(60*time.Second, func() bool {
		for _, s := range srv {
			l, err := listOf(s)
			if err != nil {
				return false
			}
			if _, ok := l[marker]; !ok {
				return false
			}
		}
		return true
	}) {
		for _, s := range srv {
			if !s.Alive() {
				violation("dies-after-restart", fmt.Sprintf("node %d exited: %s", s.Id, s.ExitReason()))
				return
			}
		}
		rec.Inconclusive(desc + ": the marker did not become visible on every node within a minute")
		return
	}
	var first map[uuid.UUID]entry
	for _, s := range srv {
		l, err := listOf(s)
		if err != nil {
			rec.Inconclusive(fmt.Sprintf("%s: List on node %d: %v", desc, s.Id, err))
			return
		}
		for id, want := range acked {
			got, ok := l[id]
			if !ok {
				violation("acknowledged-dataset-missing", fmt.Sprintf("node %d does not list %s", s.Id, want))
				return
			}
			if got.dim != want.dim || got.space != want.space || fmt.Sprint(got.parts) != fmt.Sprint(want.parts) {
				violation("dataset-differs", fmt.Sprintf("node %d lists %s, acknowledged %s", s.Id, got, want))
				return
			}
		}
		for id, e := range l {
			if deleted[id] {
				violation("deleted-dataset-listed", fmt.Sprintf("node %d lists %s whose deletion was acknowledged", s.Id, e))
				return
			}
			if _, ok := acked[id]; !ok {
				violation("unknown-dataset-listed", fmt.Sprintf("node %d lists %s which was never created", s.Id, e))
				return
			}
		}
		if first == nil {
			first = l
		} else {
			for id, e := range l {
				if f, ok := first[id]; !ok || f.String() != e.String() {
					violation("catalogues-differ-between-nodes", fmt.Sprintf("node %d lists %s, node %d lists %v", s.Id, e, srv[0].Id, first[id]))
					return
				}
			}
			if len(l) != len(first) {
				violation("catalogues-differ-between-nodes", fmt.Sprintf("node %d lists %d datasets, node %d lists %d", s.Id, len(l), srv[0].Id, len(first)))
				return
			}
		}
		rec.Count("proc_catalogues_compared", 1)
		rec.Count("catalogues_compared", 1)
	}
	rec.Case(mon.Digest(desc), true)
	if rec.WantSample() {
		rec.Sample(map[string]interface{}{"desc": desc, "steps": steps})
	}
}
