// C14 — the dataset catalogue is replicated consistently and survives restart.
package c14

import (
	"context"
	"fmt"
	"os"
	"sort"
	"strings"
	"testing"
	"time"

	pb "github.com/marekgalovic/anndb/protobuf"
	uuid "github.com/satori/go.uuid"
	"verif/harness/mon"
	"verif/harness/sim"
)

func TestC14(t *testing.T) {
	rec := mon.Open("C14")
	defer rec.Finish(t)
	if only := os.Getenv("VERIF_CASE"); only != "" {
		var c int
		fmt.Sscan(only, &c)
		scenario(rec, c)
		return
	}
	n := rec.N(16, 200)
	for c := 0; c < n; c++ {
		if rec.Mine(c) {
			scenario(rec, c)
		}
	}
}

type entry struct {
	id    uuid.UUID
	dim   uint32
	space pb.Space
	parts []uuid.UUID
	nodes [][]uint64
}

func fromMeta(m *pb.Dataset) entry {
	e := entry{id: uuid.FromBytesOrNil(m.GetId()), dim: m.GetDimension(), space: m.GetSpace()}
	for _, p := range m.GetPartitions() {
		e.parts = append(e.parts, uuid.FromBytesOrNil(p.GetId()))
		e.nodes = append(e.nodes, append([]uint64(nil), p.GetNodeIds()...))
	}
	return e
}

func (e entry) String() string {
	return fmt.Sprintf("%s dim=%d space=%v parts=%v nodes=%v", e.id, e.dim, e.space, e.parts, e.nodes)
}

func catalogue(cl *sim.Cluster, n *sim.Node) (map[uuid.UUID]entry, bool) {
	out := map[uuid.UUID]entry{}
	ok := cl.Guard(4*time.Second, func() {
		l, err := n.DM().List(context.Background(), false)
		if err != nil {
			return
		}
		for _, m := range l {
			e := fromMeta(m)
			out[e.id] = e
		}
	})
	return out, ok
}

// restartFailed files a failed restart: a join handshake that never returns is
// C20's territory (a member restarted after the membership log was compacted
// has no addresses), for the catalogue it only means nothing can be observed.
func restartFailed(rec *mon.Recorder, desc string, node uint64, err error, replay map[string]interface{}) {
	if strings.Contains(err.Error(), "join handshake did not return") {
		rec.Inconclusive(fmt.Sprintf("%s: node %d could not re-join after its restart (membership defect, see C20): catalogue not observable", desc, node))
		return
	}
	rec.Violation("restart:failed", fmt.Sprintf("%s: restart of node %d: %v", desc, node, err), replay)
}

func scenario(rec *mon.Recorder, c int) {
	rng := rec.Rand("c14", c)
	nodes := 1 + rng.Intn(3)
	desc := fmt.Sprintf("case=%d nodes=%d", c, nodes)
	rec.Current(desc)
	cl := sim.New(sim.Options{Nodes: nodes, Dir: os.Getenv("VERIF_SCRATCH") + fmt.Sprintf("/c14-%d", c), TickEvery: 5 * time.Millisecond, Seed: rec.Seed() + int64(c)})
	if c%2 == 1 {
		// a ready-loop that is in the middle of a step when a group is stopped and its log deleted
		cl.ReadyLoopNoise(uint64(rec.Seed())*31+uint64(c), 8)
	}
	defer cl.Close()
	if err := cl.Start(); err != nil {
		rec.Inconclusive(desc + ": cluster start: " + err.Error())
		return
	}
	ctx := context.Background()
	model := map[uuid.UUID]entry{}
	deleted := map[uuid.UUID]entry{}
	var steps []string
	replay := func() map[string]interface{} {
		return map[string]interface{}{"case": c, "seed": rec.Seed(), "desc": desc, "steps": steps}
	}
	liveNodes := func() []*sim.Node {
		var l []*sim.Node
		for _, n := range cl.Nodes {
			if !n.Dead() && n.In != nil {
				l = append(l, n)
			}
		}
		return l
	}
	// every create attempt uses a dimension of its own, so that a dataset listed
	// later can be attributed to an attempt whose outcome stayed unknown (the
	// call failed or timed out, yet the proposal may still be committed)
	attemptDim := uint32(100)
	openAttempts := map[uint32]bool{}
	create := func(via *sim.Node, parts, repl uint32) (entry, bool) {
		sp := []pb.Space{pb.Space_Euclidean, pb.Space_Manhattan, pb.Space_Cosine}[rng.Intn(3)]
		for attempt := 0; attempt < 20; attempt++ {
			attemptDim++
			dim := attemptDim
			var e entry
			okc := false
			cl.Guard(4*time.Second, func() {
				d, err := via.DM().Create(ctx, &pb.Dataset{Dimension: dim, PartitionCount: parts, ReplicationFactor: repl, Space: sp})
				if err == nil {
					e, okc = fromMeta(d.Meta()), true
				}
			})
			if okc {
				return e, true
			}
			openAttempts[dim] = true
			time.Sleep(150 * time.Millisecond)
		}
		return entry{}, false
	}
	violated := false
	compare := func(phase string) bool {
		// logical quiescence: a marker created last must be visible on the node
		// before its list is compared (the catalogue log is totally ordered)
		live := liveNodes()
		if len(live) == 0 {
			return true
		}
		mk, ok := create(live[0], 1, 1)
		if !ok {
			diag := ""
			for _, m := range cl.Nodes {
				if m.In != nil && m.In.ZeroGroup != nil {
					cl.Guard(2*time.Second, func() {
						st := m.In.ZeroGroup.VerifStatus()
						diag += fmt.Sprintf(" | node %d dead=%v book=%v zero{term=%d vote=%d lead=%d commit=%d applied=%d %s}", m.Id, m.Dead(), m.In.ClusterConn.Nodes(), st.Term, st.Vote, st.Lead, st.Commit, st.Applied, st.RaftState)
					})
				}
			}
			rec.Inconclusive(fmt.Sprintf("%s: marker could not be created %s (blocked calls %d)%s fatals=%v", desc, phase, cl.Blocked, diag, cl.Fatals()))
			return false
		}
		model[mk.id] = mk
		steps = append(steps, "marker "+mk.id.String())
		if cl.WaitFor(20*time.Second, func() bool {
			for _, n := range live {
				if n.Dataset(mk.id) == nil {
					return false
				}
			}
			return true
		}) != nil {
			rec.Inconclusive(fmt.Sprintf("%s: marker not visible on every live node %s (blocked calls %d)", desc, phase, cl.Blocked))
			return false
		}
		for _, n := range live {
			cat, ok := catalogue(cl, n)
			if !ok {
				rec.Inconclusive(fmt.Sprintf("%s: List on node %d did not return %s", desc, n.Id, phase))
				return false
			}
			for id, want := range model {
				got, ok := cat[id]
				if !ok {
					violated = true
					rec.Violation("catalogue:dataset-missing:"+phase, fmt.Sprintf("%s: node %d does not list acknowledged dataset %s", desc, n.Id, id), replay())
					return false
				}
				if got.String() != want.String() {
					violated = true
					rec.Violation("catalogue:dataset-differs:"+phase, fmt.Sprintf("%s: node %d lists %s, acknowledged %s", desc, n.Id, got, want), replay())
					return false
				}
			}
			for id, got := range cat {
				if _, ok := model[id]; !ok {
					if openAttempts[got.dim] {
						continue // the create attempt whose outcome was unknown did take effect
					}
					sym := "catalogue:unknown-dataset-listed:"
					if _, was := deleted[id]; was {
						sym = "catalogue:deleted-dataset-listed:"
					}
					violated = true
					rec.Violation(sym+phase, fmt.Sprintf("%s: node %d lists dataset %s which is not in the acknowledged catalogue", desc, n.Id, id), replay())
					return false
				}
			}
			// deleted datasets stop serving: no raft group of their partitions is left on the node
			groups := n.In.ZeroGroup.VerifTransport().VerifGroups()
			for _, d := range deleted {
				for _, pid := range d.parts {
					if _, ok := groups[pid]; ok {
						if cl.WaitFor(3*time.Second, func() bool {
							_, still := n.In.ZeroGroup.VerifTransport().VerifGroups()[pid]
							return !still
						}) != nil {
							violated = true
							rec.Violation("catalogue:deleted-partition-still-served:"+phase, fmt.Sprintf("%s: node %d still runs a raft group for partition %s of deleted dataset %s", desc, n.Id, pid, d.id), replay())
							return false
						}
					}
				}
			}
			rec.Count("catalogues_compared", 1)
		}
		return true
	}
	nSteps := 6 + rng.Intn(6)
	down := -1
	for s := 0; s < nSteps && !violated; s++ {
		live := liveNodes()
		via := live[rng.Intn(len(live))]
		switch r := rng.Intn(10); {
		case r < 4: // create
			e, ok := create(via, uint32(1+rng.Intn(3)), uint32(1+rng.Intn(2)))
			if !ok {
				rec.Inconclusive(desc + ": create failed repeatedly")
				return
			}
			model[e.id] = e
			steps = append(steps, fmt.Sprintf("create %s via %d", e.id, via.Id))
		case r < 6: // delete
			var ids []uuid.UUID
			for id := range model {
				ids = append(ids, id)
			}
			if len(ids) == 0 {
				continue
			}
			sort.Slice(ids, func(i, j int) bool { return ids[i].String() < ids[j].String() })
			id := ids[rng.Intn(len(ids))]
			var err error
			done := false
			for attempt := 0; attempt < 10 && !done; attempt++ {
				cl.Guard(4*time.Second, func() { err = via.DM().Delete(ctx, id); done = err == nil })
				if !done {
					time.Sleep(150 * time.Millisecond)
				}
			}
			if !done {
				rec.Inconclusive(fmt.Sprintf("%s: delete failed repeatedly: %v", desc, err))
				return
			}
			deleted[id] = model[id]
			delete(model, id)
			steps = append(steps, fmt.Sprintf("delete %s via %d", id, via.Id))
		case r < 7: // compaction of the catalogue log on every live node
			for _, n := range live {
				cl.TriggerSnapshot(n, uuid.Nil, 0)
			}
			time.Sleep(50 * time.Millisecond)
			steps = append(steps, "compaction on every live node")
		case r < 9: // restart a node (log replay, or snapshot + replay)
			n := live[rng.Intn(len(live))]
			steps = append(steps, fmt.Sprintf("restart %d", n.Id))
			if err := cl.Restart(n.Idx); err != nil {
				violated = true
				restartFailed(rec, desc, n.Id, err, replay())
				return
			}
			if !compare("after-restart") {
				return
			}
		default: // a node stays down while the catalogue changes, the others compact, it comes back
			if nodes < 3 || down >= 0 {
				continue
			}
			down = 1 + rng.Intn(nodes-1)
			cl.Crash(down)
			cl.Teardown(down)
			steps = append(steps, fmt.Sprintf("node %d down", down+1))
			live = liveNodes()
			emptyIt := rng.Intn(2) == 0 // the catalogue the returning node must restore may be empty
			var e entry
			if !emptyIt {
				var ok bool
				e, ok = create(live[0], 1, 1)
				if !ok {
					rec.Inconclusive(desc + ": create with a node down failed")
					return
				}
				model[e.id] = e
				steps = append(steps, "create "+e.id.String())
			} else {
				for id, m := range model {
					ok := false
					for attempt := 0; attempt < 10 && !ok; attempt++ {
						cl.Guard(4*time.Second, func() { ok = live[0].DM().Delete(ctx, id) == nil })
					}
					if !ok {
						rec.Inconclusive(desc + ": delete with a node down failed")
						return
					}
					deleted[id] = m
					delete(model, id)
					steps = append(steps, "delete "+id.String())
				}
				steps = append(steps, "catalogue is empty")
			}
			for id, m := range model {
				if id != e.id && rng.Intn(2) == 0 {
					ok := false
					cl.Guard(4*time.Second, func() { ok = live[0].DM().Delete(ctx, id) == nil })
					if ok {
						deleted[id] = m
						delete(model, id)
						steps = append(steps, "delete "+id.String())
					}
					break
				}
			}
			for _, n := range live {
				cl.TriggerSnapshot(n, uuid.Nil, 0)
			}
			time.Sleep(100 * time.Millisecond)
			steps = append(steps, "compaction while the node is down")
			if err := cl.StartNode(down); err != nil {
				violated = true
				restartFailed(rec, desc, uint64(down+1), err, replay())
				return
			}
			steps = append(steps, fmt.Sprintf("node %d back", down+1))
			if !compare("after-catch-up-by-snapshot") {
				return
			}
		}
		if f := cl.Fatals(); len(f) > 0 {
			violated = true
			rec.Violation("fatal:"+f[0].Message, fmt.Sprintf("%s: %+v", desc, f[0]), replay())
			return
		}
	}
	if !violated && compare("at-end") {
		// a final restart of every node: replay from scratch / from snapshot must give the same catalogue
		for _, n := range liveNodes() {
			if err := cl.Restart(n.Idx); err != nil {
				restartFailed(rec, desc, n.Id, err, replay())
				return
			}
		}
		steps = append(steps, "restart of every node")
		compare("after-full-restart")
	}
	rec.Case(mon.Digest(desc, steps), len(deleted) > 0)
	if rec.WantSample() && len(steps) < 16 {
		rec.Sample(replay())
	}
}
