// C14 — the dataset catalogue is replicated consistently and survives restart.
package c14

import (
	"context"
	"fmt"
	"github.com/marekgalovic/anndb/storage"
	"os"
	"runtime"
	"sort"
	"strings"
	"sync"
	"sync/atomic"
	"testing"
	"time"

	pb "github.com/marekgalovic/anndb/protobuf"
	uuid "github.com/satori/go.uuid"
	"verif/harness/mon"
	"verif/harness/sim"
)

// one recorder for the package: TestC14 (in-process clusters) and TestC14Proc
// (real server processes killed with SIGKILL in the middle of catalogue writes)
var shared *mon.Recorder

func TestMain(m *testing.M) {
	shared = mon.Open("C14")
	code := m.Run()
	shared.Close()
	os.Exit(code)
}

func TestC14(t *testing.T) {
	rec := shared
	if only := os.Getenv("VERIF_CASE"); only != "" {
		var c int
		fmt.Sscan(only, &c)
		if os.Getenv("VERIF_FAMILY") == "replicas" {
			replicaSetChanges(rec, c)
		} else {
			scenario(rec, c)
		}
		return
	}
	n := rec.N(16, 200)
	for c := 0; c < n; c++ {
		if rec.Mine(c) {
			scenario(rec, c)
		}
	}
	m := rec.N(4, 40)
	for c := 0; c < m; c++ {
		if rec.Mine(c + 3) {
			replicaSetChanges(rec, c)
		}
		if rec.Mine(c + 5) {
			deletionAfterLateReplica(rec, c)
		}
	}
}

// deletionAfterLateReplica: a dataset that wants three replicas is created on two members; node 3 joins and is given
// the missing replicas (it acquires them after the dataset was created); once every partition group has three voters
// the dataset is deleted: no node may still run a raft group of its partitions, and none may list it.
func deletionAfterLateReplica(rec *mon.Recorder, c int) {
	rng := rec.Rand("c14-late-replica", c)
	desc := fmt.Sprintf("deletion-after-a-replica-was-added-later case=%d nodes=3", c)
	rec.Current(desc)
	cl := sim.New(sim.Options{Nodes: 3, Dir: os.Getenv("VERIF_SCRATCH") + fmt.Sprintf("/c14d-%d", c), TickEvery: 5 * time.Millisecond, Seed: rec.Seed() + int64(c), NoJoinBarrier: true})
	defer cl.Close()
	for i := 0; i < 2; i++ {
		if err := cl.StartNode(i); err != nil {
			rec.Inconclusive(fmt.Sprintf("%s: node %d: %v", desc, i+1, err))
			return
		}
		if i == 0 {
			cl.WaitFor(20*time.Second, func() bool { return cl.Nodes[0].ZeroLeader() != 0 })
		}
		if cl.WaitMembership(i+1, 20*time.Second) != nil {
			rec.Inconclusive(desc + ": membership not reached")
			return
		}
	}
	doomedId, doomedMeta, derr := cl.CreateDataset(rng.Intn(2), 2, uint32(1+rng.Intn(3)), 3, pb.Space_Euclidean)
	if derr != nil {
		rec.Inconclusive(desc + ": create: " + derr.Error())
		return
	}
	var parts []uuid.UUID
	for _, p := range doomedMeta.GetPartitions() {
		parts = append(parts, uuid.FromBytesOrNil(p.GetId()))
	}
	if err := cl.StartNode(2); err != nil {
		rec.Inconclusive(desc + ": join of node 3: " + err.Error())
		return
	}
	// every partition group has three voters: the allocator that added node 3 is done with the dataset
	if cl.WaitFor(20*time.Second, func() bool {
		for _, pid := range parts {
			if cl.Nodes[2].PartitionRaft(doomedId, pid) == nil {
				return false
			}
			voters := 0
			for _, n := range cl.Nodes {
				if g := n.PartitionRaft(doomedId, pid); g != nil {
					if st := g.VerifStatus(); st.RaftState.String() == "StateLeader" {
						voters = len(st.Progress)
					}
				}
			}
			if voters != 3 {
				return false
			}
		}
		return true
	}) != nil {
		rec.Inconclusive(desc + ": node 3 was not given the dataset's missing replicas within the watchdog")
		return
	}
	time.Sleep(time.Duration(rng.Intn(100)) * time.Millisecond)
	replay := map[string]interface{}{"case": c, "seed": rec.Seed(), "desc": desc}
	var delErr error
	if !cl.Guard(10*time.Second, func() { delErr = cl.Nodes[rng.Intn(3)].DM().Delete(context.Background(), doomedId) }) || delErr != nil {
		rec.Inconclusive(fmt.Sprintf("%s: delete: %v", desc, delErr))
		return
	}
	for _, n := range cl.Nodes {
		n := n
		if cl.WaitFor(10*time.Second, func() bool { return n.Dataset(doomedId) == nil }) != nil {
			rec.Violation("catalogue:deleted-dataset-listed:after-a-replica-was-added-later", fmt.Sprintf("%s: node %d still knows dataset %s, whose deletion was acknowledged", desc, n.Id, doomedId), replay)
			return
		}
		for _, pid := range parts {
			pid := pid
			if cl.WaitFor(10*time.Second, func() bool {
				_, still := n.In.ZeroGroup.VerifTransport().VerifGroups()[pid]
				return !still
			}) != nil {
				rec.Violation("catalogue:deleted-partition-still-served:on-a-replica-added-after-the-dataset-was-created", fmt.Sprintf("%s: node %d still runs a raft group for partition %s of dataset %s, whose deletion was acknowledged", desc, n.Id, pid, doomedId), replay)
				return
			}
		}
	}
	rec.Count("deletions_of_datasets_with_replicas_added_later", 1)
	rec.Case(mon.Digest(desc), true)
}

// replicaSetChanges: datasets that want more replicas than there are members
// get node 3 added to their partitions when it joins, and lose it again when
// it is removed. After each change every member must list the same replica
// assignment, the listed assignment must be the one the node routes by, and
// it must survive compaction + restart (replay or snapshot restore) and reach
// a member that was down during the change.
func replicaSetChanges(rec *mon.Recorder, c int) {
	rng := rec.Rand("c14-replicas", c)
	desc := fmt.Sprintf("replica-set-changes case=%d nodes=3", c)
	rec.Current(desc)
	cl := sim.New(sim.Options{Nodes: 3, Dir: os.Getenv("VERIF_SCRATCH") + fmt.Sprintf("/c14r-%d", c), TickEvery: 5 * time.Millisecond, Seed: rec.Seed() + int64(c), NoJoinBarrier: true})
	defer cl.Close()
	var steps []string
	replay := func() map[string]interface{} {
		return map[string]interface{}{"case": c, "seed": rec.Seed(), "desc": desc, "steps": steps}
	}
	for i := 0; i < 2; i++ {
		if err := cl.StartNode(i); err != nil {
			rec.Inconclusive(fmt.Sprintf("%s: node %d: %v", desc, i+1, err))
			return
		}
		if i == 0 {
			cl.WaitFor(20*time.Second, func() bool { return cl.Nodes[0].ZeroLeader() != 0 })
		}
		if cl.WaitMembership(i+1, 20*time.Second) != nil {
			rec.Inconclusive(desc + ": membership not reached")
			return
		}
	}
	// datasets: some want 3 replicas (under-replicated with two members), some 1 or 2
	type ds struct {
		id   uuid.UUID
		repl uint32
	}
	var sets []ds
	for i := 0; i < 2+rng.Intn(3); i++ {
		repl := uint32(3)
		if i > 0 && rng.Intn(3) == 0 {
			repl = uint32(1 + rng.Intn(2))
		}
		id, _, err := cl.CreateDataset(rng.Intn(2), 2, uint32(1+rng.Intn(3)), repl, pb.Space_Euclidean)
		if err != nil {
			rec.Inconclusive(desc + ": create: " + err.Error())
			return
		}
		sets = append(sets, ds{id, repl})
		steps = append(steps, fmt.Sprintf("create %s replication=%d", id, repl))
	}
	live := func() []*sim.Node {
		var l []*sim.Node
		for _, n := range cl.Nodes {
			if !n.Dead() && n.In != nil {
				l = append(l, n)
			}
		}
		return l
	}
	// the assignment as one node lists it and as it routes by it
	type view struct{ listed, effective string }
	look := func(n *sim.Node) (view, bool) {
		var v view
		ok := cl.Guard(5*time.Second, func() {
			l, err := n.DM().List(context.Background(), false)
			if err != nil {
				return
			}
			byId := map[uuid.UUID]*pb.Dataset{}
			for _, m := range l {
				byId[uuid.FromBytesOrNil(m.GetId())] = m
			}
			for _, d := range sets {
				m := byId[d.id]
				if m == nil {
					v.listed += d.id.String() + ":missing;"
					continue
				}
				dset := n.Dataset(d.id)
				for _, p := range m.GetPartitions() {
					pid := uuid.FromBytesOrNil(p.GetId())
					v.listed += fmt.Sprintf("%s/%s=%v;", d.id.String()[:8], pid.String()[:8], p.GetNodeIds())
					if dset != nil {
						v.effective += fmt.Sprintf("%s/%s=%v;", d.id.String()[:8], pid.String()[:8], dset.VerifPartitionNodeIds(pid))
					}
				}
			}
		})
		return v, ok && v.listed != ""
	}
	// settle waits until every live member lists the assignment `expect` accepts
	// and then compares: across members, and listed against effective
	agreed := ""
	settle := func(phase string, expect func(listed string) bool) bool {
		var last map[uint64]view
		err := cl.WaitFor(40*time.Second, func() bool {
			last = map[uint64]view{}
			first := ""
			for _, n := range live() {
				v, ok := look(n)
				if !ok {
					return false
				}
				last[n.Id] = v
				if first == "" {
					first = v.listed
				}
				if v.listed != first || v.listed != v.effective || !expect(v.listed) {
					return false
				}
			}
			return first != ""
		})
		if err == nil {
			for _, v := range last {
				agreed = v.listed
			}
			rec.Count("replica_assignments_compared", int64(len(last)))
			return true
		}
		// not settled: what the node routes by is the same object on a correct tree,
		// so a persistent difference between listed and effective is a verdict of
		// its own; a difference across members is one if nobody is still applying
		r := replay()
		for id, v := range last {
			if v.listed != v.effective {
				time.Sleep(2 * time.Second)
				if v2, ok := look(cl.Nodes[id-1]); ok && v2.listed != v2.effective {
					r["node"], r["listed"], r["effective"] = id, v2.listed, v2.effective
					rec.Violation("catalogue:listed-replica-assignment-is-not-the-one-in-effect:"+phase, fmt.Sprintf("%s: node %d %s lists %s but routes by %s", desc, id, phase, v2.listed, v2.effective), r)
					return false
				}
			}
		}
		applied := func() string {
			s := ""
			for _, n := range live() {
				cl.Guard(3*time.Second, func() { s += fmt.Sprint(n.In.ZeroGroup.VerifStatus().Applied, ",") })
			}
			return s
		}
		a0 := applied()
		time.Sleep(5 * time.Second)
		views := map[string][]uint64{}
		for _, n := range live() {
			if v, ok := look(n); ok {
				views[v.effective] = append(views[v.effective], n.Id)
			}
		}
		if len(views) > 1 && applied() == a0 {
			r["views"] = fmt.Sprint(views)
			rec.Violation("catalogue:replica-assignment-differs-across-members:"+phase, fmt.Sprintf("%s: %s the members do not agree on the replica assignment although their catalogue logs are at rest: %v", desc, phase, views), r)
			return false
		}
		if p := os.Getenv("VERIF_DUMP"); p != "" {
			buf := make([]byte, 32<<20)
			buf = buf[:runtime.Stack(buf, true)]
			os.WriteFile(p, buf, 0o644)
		}
		rec.Inconclusive(fmt.Sprintf("%s: %s the expected replica assignment was not reached within the watchdog (the allocator's change may have been lost): %v", desc, phase, last))
		return false
	}
	has3 := func(listed string, want bool) bool {
		// every partition of a dataset that wants 3 replicas lists node 3 (or none does)
		for _, d := range sets {
			for _, part := range strings.Split(listed, ";") {
				if !strings.HasPrefix(part, d.id.String()[:8]+"/") {
					continue
				}
				in := strings.Contains(part, " 3]") || strings.Contains(part, "[3]") || strings.Contains(part, "[3 ") || strings.Contains(part, " 3 ")
				if d.repl == 3 && in != want {
					return false
				}
				if d.repl < 3 && in && want {
					return false
				}
			}
		}
		return true
	}
	if !settle("before-any-change", func(l string) bool { return has3(l, false) }) {
		return
	}
	// node 3 joins: the under-replicated partitions get it - while clients create and delete other datasets through
	// both members (catalogue proposals of clients overlapping the allocators' own on the same node)
	var churn sync.WaitGroup
	var churnStop int32
	for _, n := range cl.Nodes[:2] {
		churn.Add(1)
		go func(n *sim.Node) {
			defer churn.Done()
			for k := 0; k < 40 && atomic.LoadInt32(&churnStop) == 0; k++ {
				var d *storage.Dataset
				cl.Guard(4*time.Second, func() {
					d, _ = n.DM().Create(context.Background(), &pb.Dataset{Dimension: 2, PartitionCount: 1, ReplicationFactor: 1})
				})
				if d != nil {
					id := uuid.FromBytesOrNil(d.Meta().GetId())
					cl.Guard(4*time.Second, func() { n.DM().Delete(context.Background(), id) })
				}
			}
		}(n)
	}
	if err := cl.StartNode(2); err != nil {
		atomic.StoreInt32(&churnStop, 1)
		churn.Wait()
		rec.Inconclusive(desc + ": join of node 3: " + err.Error())
		return
	}
	time.Sleep(150 * time.Millisecond)
	atomic.StoreInt32(&churnStop, 1)
	churn.Wait()
	steps = append(steps, "node 3 joins (while clients create and delete datasets through both members)")
	if !settle("after-a-node-was-added-to-under-replicated-partitions", func(l string) bool { return has3(l, true) }) {
		return
	}
	rec.Count("replica_set_changes_observed", 1)
	afterAdd := agreed
	// compaction + restart of a member: replay / snapshot restore must give the same assignment
	victim := cl.Nodes[rng.Intn(3)]
	compact := c%2 == 0
	if compact {
		for _, n := range live() {
			cl.TriggerSnapshot(n, uuid.Nil, 0)
		}
		time.Sleep(100 * time.Millisecond)
		steps = append(steps, "catalogue log compacted")
	}
	steps = append(steps, fmt.Sprintf("restart of %d", victim.Id))
	if err := cl.Restart(victim.Idx); err != nil {
		restartFailed(rec, desc, victim.Id, err, replay())
		return
	}
	ph := "after-restart-following-a-replica-set-change"
	if compact {
		ph = "after-restart-from-snapshot-following-a-replica-set-change"
	}
	if !settle(ph, func(l string) bool { return l == afterAdd }) {
		return
	}
	// a member is down while node 3 is removed (its partitions lose it) and the log is compacted
	lag := cl.Nodes[1]
	if c%3 == 0 {
		cl.Crash(lag.Idx)
		cl.Teardown(lag.Idx)
		steps = append(steps, "node 2 down")
	} else {
		lag = nil
	}
	// node 1 leads the membership-and-catalogue group when node 3 goes: a leader that is removed and stopped takes
	// the proposals forwarded to it with it, and the allocators wait for their outcome without bound (observed on
	// the unchanged tree and outside what C14 states, see DESIGN 9.2) - the family is about the changes that are made
	cl.WaitFor(15*time.Second, func() bool {
		if cl.Nodes[0].ZeroLeader() == 1 {
			return true
		}
		cl.Guard(2*time.Second, func() { cl.Nodes[0].In.ZeroGroup.VerifCampaign() })
		time.Sleep(100 * time.Millisecond)
		return cl.Nodes[0].ZeroLeader() == 1
	})
	var err error
	if !cl.Guard(20*time.Second, func() { err = cl.Nodes[0].In.NodesManager.RemoveNode(3) }) || err != nil {
		rec.Inconclusive(fmt.Sprintf("%s: removal of node 3: %v", desc, err))
		return
	}
	steps = append(steps, "node 3 removed")
	cl.Crash(2)
	cl.Teardown(2)
	if lag == nil {
		if !settle("after-a-node-was-removed-from-its-partitions", func(l string) bool { return has3(l, false) }) {
			return
		}
		rec.Count("replica_set_changes_observed", 1)
	} else {
		// with node 2 down the remaining member has no quorum for the replica-set
		// changes: they commit once node 2 is back, which is caught up by the
		// survivor's snapshot
		for _, n := range live() {
			cl.TriggerSnapshot(n, uuid.Nil, 0)
		}
		time.Sleep(100 * time.Millisecond)
		steps = append(steps, "catalogue log compacted while node 2 is down")
		if err := cl.StartNode(lag.Idx); err != nil {
			restartFailed(rec, desc, lag.Id, err, replay())
			return
		}
		steps = append(steps, "node 2 back")
		// which partitions have lost node 3 by now depends on whose turn it is to
		// change them (only a partition's first replica may, and it may have been
		// the member that was down): the verdict is agreement, not a particular outcome
		if !settle("after-a-node-was-removed-while-a-member-was-down", func(l string) bool { return true }) {
			return
		}
		rec.Count("replica_set_changes_observed", 1)
	}
	afterRemove := agreed
	// a last restart of everybody: same assignment from replay / snapshot
	for _, n := range live() {
		if err := cl.Restart(n.Idx); err != nil {
			restartFailed(rec, desc, n.Id, err, replay())
			return
		}
	}
	steps = append(steps, "restart of every member")
	if !settle("after-full-restart-following-replica-set-changes", func(l string) bool { return l == afterRemove }) {
		return
	}
	rec.Case(mon.Digest(desc, steps), true)
	if rec.WantSample() {
		rec.Sample(replay())
	}
}

type entry struct {
	id    uuid.UUID
	dim   uint32
	space pb.Space
	parts []uuid.UUID
	nodes [][]uint64
}

func fromMeta(m *pb.Dataset) entry {
	e := entry{id: uuid.FromBytesOrNil(m.GetId()), dim: m.GetDimension(), space: m.GetSpace()}
	for _, p := range m.GetPartitions() {
		e.parts = append(e.parts, uuid.FromBytesOrNil(p.GetId()))
		e.nodes = append(e.nodes, append([]uint64(nil), p.GetNodeIds()...))
	}
	return e
}

func (e entry) String() string {
	return fmt.Sprintf("%s dim=%d space=%v parts=%v nodes=%v", e.id, e.dim, e.space, e.parts, e.nodes)
}

func catalogue(cl *sim.Cluster, n *sim.Node) (map[uuid.UUID]entry, bool) {
	out := map[uuid.UUID]entry{}
	ok := cl.Guard(4*time.Second, func() {
		l, err := n.DM().List(context.Background(), false)
		if err != nil {
			return
		}
		for _, m := range l {
			e := fromMeta(m)
			out[e.id] = e
		}
	})
	return out, ok
}

// restartFailed files a failed restart: a join handshake that never returns is
// C20's territory (a member restarted after the membership log was compacted
// has no addresses), for the catalogue it only means nothing can be observed.
func restartFailed(rec *mon.Recorder, desc string, node uint64, err error, replay map[string]interface{}) {
	if strings.Contains(err.Error(), "join handshake did not return") {
		rec.Inconclusive(fmt.Sprintf("%s: node %d could not re-join after its restart (membership defect, see C20): catalogue not observable", desc, node))
		return
	}
	rec.Violation("restart:failed", fmt.Sprintf("%s: restart of node %d: %v", desc, node, err), replay)
}

func scenario(rec *mon.Recorder, c int) {
	rng := rec.Rand("c14", c)
	nodes := 1 + rng.Intn(3)
	// every fourth case is sure to have a member that is down while the
	// catalogue changes and is caught up by snapshot afterwards - in every
	// second of those the catalogue it must restore is empty
	forceLag := c%4 == 2
	if forceLag {
		nodes = 3
	}
	desc := fmt.Sprintf("case=%d nodes=%d", c, nodes)
	rec.Current(desc)
	cl := sim.New(sim.Options{Nodes: nodes, Dir: os.Getenv("VERIF_SCRATCH") + fmt.Sprintf("/c14-%d", c), TickEvery: 5 * time.Millisecond, Seed: rec.Seed() + int64(c)})
	if c%2 == 1 {
		// a ready-loop that is in the middle of a step when a group is stopped and its log deleted
		cl.ReadyLoopNoise(uint64(rec.Seed())*31+uint64(c), 8)
	}
	defer cl.Close()
	if err := cl.Start(); err != nil {
		rec.Inconclusive(desc + ": cluster start: " + err.Error())
		return
	}
	ctx := context.Background()
	model := map[uuid.UUID]entry{}
	deleted := map[uuid.UUID]entry{}
	var steps []string
	replay := func() map[string]interface{} {
		return map[string]interface{}{"case": c, "seed": rec.Seed(), "desc": desc, "steps": steps}
	}
	liveNodes := func() []*sim.Node {
		var l []*sim.Node
		for _, n := range cl.Nodes {
			if !n.Dead() && n.In != nil {
				l = append(l, n)
			}
		}
		return l
	}
	// every create attempt uses a dimension of its own, so that a dataset listed
	// later can be attributed to an attempt whose outcome stayed unknown (the
	// call failed or timed out, yet the proposal may still be committed)
	attemptDim := uint32(100)
	openAttempts := map[uint32]bool{}
	create := func(via *sim.Node, parts, repl uint32) (entry, bool) {
		sp := []pb.Space{pb.Space_Euclidean, pb.Space_Manhattan, pb.Space_Cosine}[rng.Intn(3)]
		for attempt := 0; attempt < 20; attempt++ {
			attemptDim++
			dim := attemptDim
			var e entry
			okc := false
			cl.Guard(4*time.Second, func() {
				d, err := via.DM().Create(ctx, &pb.Dataset{Dimension: dim, PartitionCount: parts, ReplicationFactor: repl, Space: sp})
				if err == nil {
					e, okc = fromMeta(d.Meta()), true
				}
			})
			if okc {
				return e, true
			}
			openAttempts[dim] = true
			time.Sleep(150 * time.Millisecond)
		}
		return entry{}, false
	}
	violated := false
	compare := func(phase string) bool {
		// logical quiescence: a marker created last must be visible on the node
		// before its list is compared (the catalogue log is totally ordered)
		live := liveNodes()
		if len(live) == 0 {
			return true
		}
		mk, ok := create(live[0], 1, 1)
		if !ok {
			diag := ""
			for _, m := range cl.Nodes {
				if m.In != nil && m.In.ZeroGroup != nil {
					cl.Guard(2*time.Second, func() {
						st := m.In.ZeroGroup.VerifStatus()
						diag += fmt.Sprintf(" | node %d dead=%v book=%v zero{term=%d vote=%d lead=%d commit=%d applied=%d %s}", m.Id, m.Dead(), m.In.ClusterConn.Nodes(), st.Term, st.Vote, st.Lead, st.Commit, st.Applied, st.RaftState)
					})
				}
			}
			rec.Inconclusive(fmt.Sprintf("%s: marker could not be created %s (blocked calls %d)%s fatals=%v", desc, phase, cl.Blocked, diag, cl.Fatals()))
			return false
		}
		model[mk.id] = mk
		steps = append(steps, "marker "+mk.id.String())
		if cl.WaitFor(20*time.Second, func() bool {
			for _, n := range live {
				if n.Dataset(mk.id) == nil {
					return false
				}
			}
			return true
		}) != nil {
			rec.Inconclusive(fmt.Sprintf("%s: marker not visible on every live node %s (blocked calls %d)", desc, phase, cl.Blocked))
			return false
		}
		for _, n := range live {
			cat, ok := catalogue(cl, n)
			if !ok {
				rec.Inconclusive(fmt.Sprintf("%s: List on node %d did not return %s", desc, n.Id, phase))
				return false
			}
			for id, want := range model {
				got, ok := cat[id]
				if !ok {
					violated = true
					rec.Violation("catalogue:dataset-missing:"+phase, fmt.Sprintf("%s: node %d does not list acknowledged dataset %s", desc, n.Id, id), replay())
					return false
				}
				if got.String() != want.String() {
					violated = true
					rec.Violation("catalogue:dataset-differs:"+phase, fmt.Sprintf("%s: node %d lists %s, acknowledged %s", desc, n.Id, got, want), replay())
					return false
				}
			}
			for id, got := range cat {
				if _, ok := model[id]; !ok {
					if openAttempts[got.dim] {
						continue // the create attempt whose outcome was unknown did take effect
					}
					sym := "catalogue:unknown-dataset-listed:"
					if _, was := deleted[id]; was {
						sym = "catalogue:deleted-dataset-listed:"
					}
					violated = true
					rec.Violation(sym+phase, fmt.Sprintf("%s: node %d lists dataset %s which is not in the acknowledged catalogue", desc, n.Id, id), replay())
					return false
				}
			}
			// deleted datasets stop serving: no raft group of their partitions is left on the node
			groups := n.In.ZeroGroup.VerifTransport().VerifGroups()
			for _, d := range deleted {
				for _, pid := range d.parts {
					if _, ok := groups[pid]; ok {
						if cl.WaitFor(3*time.Second, func() bool {
							_, still := n.In.ZeroGroup.VerifTransport().VerifGroups()[pid]
							return !still
						}) != nil {
							violated = true
							rec.Violation("catalogue:deleted-partition-still-served:"+phase, fmt.Sprintf("%s: node %d still runs a raft group for partition %s of deleted dataset %s", desc, n.Id, pid, d.id), replay())
							return false
						}
					}
				}
			}
			rec.Count("catalogues_compared", 1)
		}
		return true
	}
	nSteps := 6 + rng.Intn(6)
	down := -1
	for s := 0; s < nSteps && !violated; s++ {
		live := liveNodes()
		via := live[rng.Intn(len(live))]
		r := rng.Intn(10)
		if forceLag && s == nSteps/2 && down < 0 {
			r = 9
		}
		if s == 2 && c%2 == 0 {
			// several clients at once through one node: same-shaped creations, then their deletions, all overlapping.
			// Whatever is acknowledged is what every node lists, now and after a restart.
			burst := 6
			type res struct {
				e  entry
				ok bool
			}
			out := make([]res, burst)
			var wg sync.WaitGroup
			dims := make([]uint32, burst)
			for i := range dims {
				attemptDim++
				dims[i] = attemptDim
			}
			for i := 0; i < burst; i++ {
				wg.Add(1)
				go func(i int) {
					defer wg.Done()
					cl.Guard(6*time.Second, func() {
						d, err := via.DM().Create(ctx, &pb.Dataset{Dimension: dims[i], PartitionCount: 1, ReplicationFactor: 1, Space: pb.Space_Euclidean})
						if err == nil {
							out[i] = res{fromMeta(d.Meta()), true}
						}
					})
				}(i)
			}
			wg.Wait()
			var made []entry
			for i, o := range out {
				if o.ok {
					model[o.e.id] = o.e
					made = append(made, o.e)
				} else {
					openAttempts[dims[i]] = true
				}
			}
			steps = append(steps, fmt.Sprintf("%d concurrent creates via %d, %d acknowledged", burst, via.Id, len(made)))
			delOK := make([]bool, len(made))
			for i := range made {
				wg.Add(1)
				go func(i int) {
					defer wg.Done()
					cl.Guard(6*time.Second, func() { delOK[i] = via.DM().Delete(ctx, made[i].id) == nil })
				}(i)
			}
			wg.Wait()
			nd := 0
			for i, e := range made {
				if delOK[i] {
					deleted[e.id] = e
					delete(model, e.id)
					nd++
				} else {
					// outcome unknown: the dataset may or may not be there
					delete(model, e.id)
					openAttempts[e.dim] = true
				}
			}
			steps = append(steps, fmt.Sprintf("%d concurrent deletes via %d, %d acknowledged", len(made), via.Id, nd))
			rec.Count("concurrent_catalogue_bursts", 1)
			continue
		}
		switch {
		case r < 4: // create
			e, ok := create(via, uint32(1+rng.Intn(3)), uint32(1+rng.Intn(2)))
			if !ok {
				rec.Inconclusive(desc + ": create failed repeatedly")
				return
			}
			model[e.id] = e
			steps = append(steps, fmt.Sprintf("create %s via %d", e.id, via.Id))
		case r < 6: // delete
			var ids []uuid.UUID
			for id := range model {
				ids = append(ids, id)
			}
			if len(ids) == 0 {
				continue
			}
			sort.Slice(ids, func(i, j int) bool { return ids[i].String() < ids[j].String() })
			id := ids[rng.Intn(len(ids))]
			var err error
			done := false
			for attempt := 0; attempt < 10 && !done; attempt++ {
				cl.Guard(4*time.Second, func() { err = via.DM().Delete(ctx, id); done = err == nil })
				if !done {
					time.Sleep(150 * time.Millisecond)
				}
			}
			if !done {
				rec.Inconclusive(fmt.Sprintf("%s: delete failed repeatedly: %v", desc, err))
				return
			}
			deleted[id] = model[id]
			delete(model, id)
			steps = append(steps, fmt.Sprintf("delete %s via %d", id, via.Id))
		case r < 7: // compaction of the catalogue log on every live node
			for _, n := range live {
				cl.TriggerSnapshot(n, uuid.Nil, 0)
			}
			time.Sleep(50 * time.Millisecond)
			steps = append(steps, "compaction on every live node")
		case r < 9: // restart a node (log replay, or snapshot + replay)
			n := live[rng.Intn(len(live))]
			steps = append(steps, fmt.Sprintf("restart %d", n.Id))
			if err := cl.Restart(n.Idx); err != nil {
				violated = true
				restartFailed(rec, desc, n.Id, err, replay())
				return
			}
			if !compare("after-restart") {
				return
			}
		default: // a node stays down while the catalogue changes, the others compact, it comes back
			if nodes < 3 || down >= 0 {
				continue
			}
			if forceLag && len(model) < 2 {
				// the node that goes away knows datasets (so that it has something to forget, or to keep wrongly)
				for k := 0; k < 2; k++ {
					if e0, ok := create(live[0], uint32(1+k), 1); ok {
						model[e0.id] = e0
						steps = append(steps, "create "+e0.id.String())
					}
				}
				if !compare("before-a-member-goes-down") {
					return
				}
			}
			down = 1 + rng.Intn(nodes-1)
			cl.Crash(down)
			cl.Teardown(down)
			steps = append(steps, fmt.Sprintf("node %d down", down+1))
			live = liveNodes()
			emptyIt := rng.Intn(2) == 0 // the catalogue the returning node must restore may be empty
			if forceLag {
				emptyIt = c%8 == 2
			}
			var e entry
			if !emptyIt {
				var ok bool
				e, ok = create(live[0], 1, 1)
				if !ok {
					rec.Inconclusive(desc + ": create with a node down failed")
					return
				}
				model[e.id] = e
				steps = append(steps, "create "+e.id.String())
			} else {
				for id, m := range model {
					ok := false
					for attempt := 0; attempt < 10 && !ok; attempt++ {
						cl.Guard(4*time.Second, func() { ok = live[0].DM().Delete(ctx, id) == nil })
					}
					if !ok {
						rec.Inconclusive(desc + ": delete with a node down failed")
						return
					}
					deleted[id] = m
					delete(model, id)
					steps = append(steps, "delete "+id.String())
				}
				steps = append(steps, "catalogue is empty")
			}
			for id, m := range model {
				if id != e.id && rng.Intn(2) == 0 {
					ok := false
					cl.Guard(4*time.Second, func() { ok = live[0].DM().Delete(ctx, id) == nil })
					if ok {
						deleted[id] = m
						delete(model, id)
						steps = append(steps, "delete "+id.String())
					}
					break
				}
			}
			for _, n := range live {
				cl.TriggerSnapshot(n, uuid.Nil, 0)
			}
			time.Sleep(100 * time.Millisecond)
			steps = append(steps, "compaction while the node is down")
			if err := cl.StartNode(down); err != nil {
				violated = true
				restartFailed(rec, desc, uint64(down+1), err, replay())
				return
			}
			steps = append(steps, fmt.Sprintf("node %d back", down+1))
			if !compare("after-catch-up-by-snapshot") {
				return
			}
		}
		if f := cl.Fatals(); len(f) > 0 {
			violated = true
			rec.Violation("fatal:"+f[0].Message, fmt.Sprintf("%s: %+v", desc, f[0]), replay())
			return
		}
	}
	if !violated && compare("at-end") {
		// a final restart of every node: replay from scratch / from snapshot must give the same catalogue
		for _, n := range liveNodes() {
			if err := cl.Restart(n.Idx); err != nil {
				restartFailed(rec, desc, n.Id, err, replay())
				return
			}
		}
		steps = append(steps, "restart of every node")
		compare("after-full-restart")
	}
	rec.Case(mon.Digest(desc, steps), len(deleted) > 0)
	if rec.WantSample() && len(steps) < 16 {
		rec.Sample(replay())
	}
}
