// C14, a member that falls behind without going down (cut off from the others): it took a snapshot of its own
// before, is caught up by the leader's snapshot afterwards, applies a further entry that is not a catalogue change,
// takes its next snapshot, and restarts - all in one process lifetime, so that whatever the snapshot code keeps
// between two snapshots is in play. After the restart it must list the acknowledged catalogue.
package c14

import (
	"context"
	"fmt"
	"os"
	"testing"
	"time"

	pb "github.com/marekgalovic/anndb/protobuf"
	uuid "github.com/satori/go.uuid"
	"verif/harness/mon"
	"verif/harness/sim"
)

func TestC14Lag(t *testing.T) {
	rec := shared
	if os.Getenv("VERIF_CASE") != "" {
		return
	}
	n := rec.N(4, 40)
	for c := 0; c < n; c++ {
		if rec.Mine(c + 5) {
			laggingByPartition(rec, c)
		}
	}
}

func laggingByPartition(rec *mon.Recorder, c int) {
	rng := rec.Rand("c14-lag", c)
	desc := fmt.Sprintf("cut-off-member case=%d nodes=3", c)
	rec.Current(desc)
	cl := sim.New(sim.Options{Nodes: 3, Dir: os.Getenv("VERIF_SCRATCH") + fmt.Sprintf("/c14l-%d", c), TickEvery: 5 * time.Millisecond, Seed: rec.Seed() + int64(c), SimNet: true})
	defer cl.Close()
	if err := cl.Start(); err != nil {
		rec.Inconclusive(desc + ": cluster start: " + err.Error())
		return
	}
	ctx := context.Background()
	var steps []string
	replay := func() map[string]interface{} {
		return map[string]interface{}{"case": c, "seed": rec.Seed(), "desc": desc, "steps": steps}
	}
	model := map[uuid.UUID]entry{}
	deleted := map[uuid.UUID]bool{}
	dim := uint32(200)
	openDims := map[uint32]bool{}
	create := func(via *sim.Node) bool {
		for attempt := 0; attempt < 15; attempt++ {
			dim++
			d := dim
			ok := false
			cl.Guard(4*time.Second, func() {
				m, err := via.DM().Create(ctx, &pb.Dataset{Dimension: d, PartitionCount: uint32(1 + rng.Intn(2)), ReplicationFactor: 1, Space: pb.Space(rng.Intn(3))})
				if err == nil {
					e := fromMeta(m.Meta())
					model[e.id] = e
					steps = append(steps, fmt.Sprintf("create %s via %d", e.id, via.Id))
					ok = true
				}
			})
			if ok {
				return true
			}
			openDims[d] = true
			time.Sleep(150 * time.Millisecond)
		}
		return false
	}
	// the member that will be cut off must not be the membership leader (a cut-off leader is another history)
	cl.WaitFor(10*time.Second, func() bool { return cl.Nodes[0].ZeroLeader() != 0 })
	lead := cl.Nodes[0].ZeroLeader()
	var lag *sim.Node
	var rest []*sim.Node
	for _, i := range rng.Perm(3) {
		n := cl.Nodes[i]
		if lag == nil && n.Id != lead {
			lag = n
		} else {
			rest = append(rest, n)
		}
	}
	for i := 0; i < 2+rng.Intn(3); i++ {
		if !create(rest[0]) {
			rec.Inconclusive(desc + ": create failed repeatedly")
			return
		}
	}
	zeroApplied := func(n *sim.Node) uint64 {
		var a uint64
		cl.Guard(3*time.Second, func() { a = n.In.ZeroGroup.VerifStatus().Applied })
		return a
	}
	zeroCommit := func() uint64 {
		var cmax uint64
		for _, n := range rest {
			cl.Guard(3*time.Second, func() {
				if x := n.In.ZeroGroup.VerifStatus().Commit; x > cmax {
					cmax = x
				}
			})
		}
		return cmax
	}
	if cl.WaitFor(15*time.Second, func() bool { return zeroApplied(lag) >= zeroCommit() }) != nil {
		rec.Inconclusive(desc + ": the member did not apply the initial catalogue")
		return
	}
	cl.TriggerSnapshot(lag, uuid.Nil, 0)
	time.Sleep(50 * time.Millisecond)
	steps = append(steps, fmt.Sprintf("node %d takes a snapshot of its own", lag.Id))
	cl.Net.Partition([]uint64{lag.Id}, []uint64{rest[0].Id, rest[1].Id}, false)
	steps = append(steps, fmt.Sprintf("node %d cut off", lag.Id))
	// the catalogue changes meanwhile: deletions and creations
	for id := range model {
		if rng.Intn(2) == 0 {
			ok := false
			for attempt := 0; attempt < 10 && !ok; attempt++ {
				cl.Guard(4*time.Second, func() { ok = rest[0].DM().Delete(ctx, id) == nil })
				if !ok {
					time.Sleep(150 * time.Millisecond)
				}
			}
			if ok {
				delete(model, id)
				deleted[id] = true
				steps = append(steps, "delete "+id.String())
			}
		}
	}
	for i := 0; i < 1+rng.Intn(2); i++ {
		if !create(rest[rng.Intn(2)]) {
			rec.Inconclusive(desc + ": create failed repeatedly while a member was cut off")
			return
		}
	}
	for _, n := range rest {
		cl.TriggerSnapshot(n, uuid.Nil, 0)
	}
	time.Sleep(100 * time.Millisecond)
	steps = append(steps, "the others compact the catalogue log")
	cl.Net.Heal()
	steps = append(steps, fmt.Sprintf("node %d back in touch", lag.Id))
	target := zeroCommit()
	if cl.WaitFor(30*time.Second, func() bool { return zeroApplied(lag) >= target }) != nil {
		rec.Inconclusive(desc + ": the member that was cut off did not catch up within the watchdog")
		return
	}
	// an entry that is not a catalogue change: the other follower campaigns, the new leader's empty entry follows
	before := zeroCommit()
	for _, n := range rest {
		if n.Id != cl.Nodes[0].ZeroLeader() {
			cl.Guard(3*time.Second, func() { n.In.ZeroGroup.VerifCampaign() })
			break
		}
	}
	cl.WaitFor(10*time.Second, func() bool { return zeroCommit() > before && zeroApplied(lag) >= zeroCommit() })
	steps = append(steps, "leader change (an empty entry is applied)")
	cl.TriggerSnapshot(lag, uuid.Nil, 0)
	time.Sleep(80 * time.Millisecond)
	steps = append(steps, fmt.Sprintf("node %d takes its next snapshot", lag.Id))
	lag.NoRejoin = c%2 == 0
	if err := cl.Restart(lag.Idx); err != nil {
		rec.Inconclusive(fmt.Sprintf("%s: restart of node %d: %v", desc, lag.Id, err))
		return
	}
	steps = append(steps, fmt.Sprintf("node %d restarted", lag.Id))
	rec.Count("cut_off_member_histories", 1)
	// what it lists right after the restart is what its own snapshot and log gave it
	if cl.WaitFor(20*time.Second, func() bool { return zeroApplied(lag) >= target }) != nil {
		rec.Inconclusive(desc + ": the restarted member did not replay its log within the watchdog")
		return
	}
	cat, ok := catalogue(cl, lag)
	if !ok {
		rec.Inconclusive(desc + ": List on the restarted member did not return")
		return
	}
	for id, want := range model {
		got, listed := cat[id]
		if !listed {
			rec.Violation("catalogue:dataset-missing:after-restart-of-a-member-caught-up-by-snapshot-that-snapshotted-again", fmt.Sprintf("%s: node %d does not list acknowledged dataset %s", desc, lag.Id, want), replay())
			return
		}
		if got.dim != want.dim || got.space != want.space || fmt.Sprint(got.parts) != fmt.Sprint(want.parts) {
			rec.Violation("catalogue:dataset-differs:after-restart-of-a-member-caught-up-by-snapshot-that-snapshotted-again", fmt.Sprintf("%s: node %d lists %s, acknowledged %s", desc, lag.Id, got, want), replay())
			return
		}
	}
	for id, e := range cat {
		if deleted[id] {
			rec.Violation("catalogue:deleted-dataset-listed:after-restart-of-a-member-caught-up-by-snapshot-that-snapshotted-again", fmt.Sprintf("%s: node %d lists %s whose deletion was acknowledged", desc, lag.Id, e), replay())
			return
		}
		if _, known := model[id]; !known && !openDims[e.dim] {
			rec.Violation("catalogue:unknown-dataset-listed:after-restart-of-a-member-caught-up-by-snapshot-that-snapshotted-again", fmt.Sprintf("%s: node %d lists %s which was never created", desc, lag.Id, e), replay())
			return
		}
	}
	rec.Count("catalogues_compared", 1)
	rec.Case(mon.Digest(desc, steps), len(deleted) > 0)
}
