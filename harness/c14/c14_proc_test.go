// C14 on real processes: catalogue changes (create / delete) are acknowledged by real cmd/anndb servers while one of
// them is killed with SIGKILL in the middle of the membership-and-catalogue log's ready-loop (before / after the log
// write, after apply, around snapshot+compaction) or at a seeded moment, and restarted on its data directory. After a
// marker created afterwards is listed everywhere, every node must list exactly the acknowledged catalogue (creations
// whose outcome is unknown may or may not be there), identically, and none of the acknowledged deletions.
package c14

import (
	"context"
	"fmt"
	"os"
	"path/filepath"
	"sort"
	"strconv"
	"sync"
	"syscall"
	"testing"
	"time"

	pb "github.com/marekgalovic/anndb/protobuf"
	uuid "github.com/satori/go.uuid"
	"verif/harness/mon"
	"verif/harness/proc"
)

var zeroKillPoints = []string{"beforeSave", "beforeSave", "beforeSave", "afterSave", "afterSave", "applied", "applied", "beforeSendFollower", "afterAdvance", "snapshot.trigger", "snapshot.done"}

func TestC14Proc(t *testing.T) {
	rec := shared
	if os.Getenv("VERIF_CASE") != "" {
		return
	}
	if proc.Bin() == "" {
		rec.Inconclusive("real-process part skipped: VERIF_ANNDB_BIN not set")
		return
	}
	n := rec.N(48, 600)
	var wg sync.WaitGroup
	sem := make(chan struct{}, 2)
	for c := 0; c < n; c++ {
		if !rec.Mine(c) {
			continue
		}
		wg.Add(1)
		sem <- struct{}{}
		go func(c int) {
			defer wg.Done()
			defer func() { <-sem }()
			procCase(rec, c)
		}(c)
	}
	wg.Wait()
}

func listOf(s *proc.Server) (map[uuid.UUID]entry, error) {
	l, err := s.List(5 * time.Second)
	if err != nil {
		return nil, err
	}
	out := map[uuid.UUID]entry{}
	for _, m := range l {
		e := fromMeta(m)
		out[e.id] = e
	}
	return out, nil
}

func tailLog(s *proc.Server, n int) []string {
	b, _ := os.ReadFile(s.LogPath())
	var lines []string
	cur := ""
	for _, ch := range string(b) {
		if ch == '\n' {
			if len(cur) > 300 {
				cur = cur[:300]
			}
			lines = append(lines, cur)
			cur = ""
		} else {
			cur += string(ch)
		}
	}
	if len(lines) > n {
		lines = lines[len(lines)-n:]
	}
	return lines
}

func procCase(rec *mon.Recorder, c int) {
	rng := rec.Rand("c14-proc", c)
	nodes := 1
	if c%2 == 1 {
		nodes = 3
	}
	mode := "kill-point"
	if rng.Intn(4) == 0 {
		mode = "sigkill"
	}
	point := zeroKillPoints[rng.Intn(len(zeroKillPoints))]
	snapEvery := 0
	if rng.Intn(3) != 0 || point == "snapshot.trigger" || point == "snapshot.done" {
		snapEvery = 2 + rng.Intn(5)
	}
	k := 1 + rng.Intn(10)
	if point == "snapshot.trigger" || point == "snapshot.done" {
		k = 1 + rng.Intn(3)
	}
	victim := 0
	if nodes == 3 {
		victim = rng.Intn(3)
	}
	rejoin := rng.Intn(3) != 0
	killAfter := 1 + rng.Intn(10)
	pause := c%4 < 2 || point == "beforeSave"
	hit := mode
	if mode == "kill-point" {
		hit = "zero/" + point
	}
	desc := fmt.Sprintf("proc-catalogue case=%d nodes=%d victim=%d mode=%s point=zero:%s@%d snapshot-every=%d rejoin=%v kill-after-ops=%d pause-before-kill=%v", c, nodes, victim+1, mode, point, k, snapEvery, rejoin, killAfter, pause)
	rec.Current(desc)
	var steps []string
	var srv []*proc.Server
	violation := func(sym, detail string) {
		logs := map[string][]string{}
		for _, s := range srv {
			logs[fmt.Sprint(s.Id)] = tailLog(s, 50)
		}
		rec.Violation("proc:"+sym+":"+hit, desc+": "+detail, map[string]interface{}{"desc": desc, "seed": rec.Seed(), "steps": steps, "server_log_tails": logs})
	}
	dir := filepath.Join(os.Getenv("VERIF_SCRATCH"), fmt.Sprintf("c14proc-%d", c))
	defer os.RemoveAll(dir)
	defer func() {
		for _, s := range srv {
			s.Kill()
		}
	}()
	for i := 0; i < nodes; i++ {
		join := ""
		if i > 0 {
			join = srv[0].Addr()
		}
		s := proc.New(uint64(i+1), filepath.Join(dir, fmt.Sprintf("n%d", i+1)), join)
		if snapEvery > 0 {
			s.Env = append(s.Env, "VERIF_SNAPSHOT_EVERY="+strconv.Itoa(snapEvery))
		}
		if i == victim && mode == "kill-point" {
			s.Env = append(s.Env, fmt.Sprintf("VERIF_KILL_AT=zero:%s@%d", point, k), "VERIF_KILL_ARM=signal")
			if pause {
				// the loop that reached the point is held for 10 ms before the process dies: replies that
				// were already on their way out leave, nothing more is written by that loop
				s.Env = append(s.Env, "VERIF_KILL_DELAY=10ms")
			}
		}
		srv = append(srv, s)
		if err := s.Start(); err != nil {
			rec.Inconclusive(desc + ": start: " + err.Error())
			return
		}
		if err := s.WaitServing(60 * time.Second); err != nil {
			rec.Inconclusive(desc + ": fresh server not serving: " + err.Error())
			return
		}
	}
	waitFor := func(d time.Duration, cond func() bool) bool {
		deadline := time.Now().Add(d)
		for time.Now().Before(deadline) {
			if cond() {
				return true
			}
			time.Sleep(100 * time.Millisecond)
		}
		return cond()
	}
	if nodes > 1 && !waitFor(60*time.Second, func() bool {
		for _, s := range srv {
			d, err := s.Dump(5 * time.Second)
			if err != nil || len(d.Nodes) != nodes {
				return false
			}
		}
		return true
	}) {
		rec.Inconclusive(desc + ": the members did not learn of each other within a minute")
		return
	}
	v := srv[victim]
	// model: id -> what was acknowledged; open = outcome unknown
	acked := map[uuid.UUID]entry{}
	deleted := map[uuid.UUID]bool{}
	var openDims []uint32 // creations whose outcome is unknown, recognised by their unique dimension
	openDeletes := map[uuid.UUID]bool{}
	dimCtr := uint32(10)
	entryNode := func() *proc.Server {
		for off := 0; off < nodes; off++ {
			s := srv[off]
			if nodes > 1 && s == v {
				continue
			}
			return s
		}
		return v
	}
	op := func(i int) {
		s := entryNode()
		if !s.Alive() {
			return
		}
		var ids []uuid.UUID
		for id := range acked {
			ids = append(ids, id)
		}
		sort.Slice(ids, func(a, b int) bool { return ids[a].String() < ids[b].String() })
		if len(ids) > 0 && rng.Intn(3) == 0 {
			id := ids[rng.Intn(len(ids))]
			ctx, cancel := context.WithTimeout(context.Background(), 8*time.Second)
			_, err := pb.NewDatasetManagerClient(s.Conn()).Delete(ctx, &pb.UUIDRequest{Id: id.Bytes()})
			cancel()
			if err == nil {
				delete(acked, id)
				deleted[id] = true
				steps = append(steps, fmt.Sprintf("delete %s -> ok", id))
			} else {
				delete(acked, id)
				openDeletes[id] = true
				steps = append(steps, fmt.Sprintf("delete %s -> OPEN (%v)", id, err))
			}
			return
		}
		dimCtr++
		dim := dimCtr
		parts := uint32(1 + rng.Intn(3))
		repl := uint32(1 + rng.Intn(nodes))
		space := []pb.Space{pb.Space_Euclidean, pb.Space_Manhattan, pb.Space_Cosine}[rng.Intn(3)]
		m, err := s.Create(dim, parts, repl, space, 8*time.Second)
		if err == nil {
			e := fromMeta(m)
			acked[e.id] = e
			steps = append(steps, fmt.Sprintf("create dim=%d parts=%d repl=%d %v -> %s", dim, parts, repl, space, e.id))
		} else {
			openDims = append(openDims, dim)
			steps = append(steps, fmt.Sprintf("create dim=%d -> OPEN (%v)", dim, err))
		}
	}
	if mode == "kill-point" {
		syscall.Kill(v.Pid(), syscall.SIGUSR2)
		time.Sleep(50 * time.Millisecond)
	}
	for i := 0; i < 12; i++ {
		if mode == "sigkill" && i == killAfter && v.Alive() {
			time.Sleep(time.Duration(rng.Intn(3000)) * time.Microsecond)
			v.Kill()
			steps = append(steps, "SIGKILL")
			rec.Count("proc_sigkills_between_catalogue_changes", 1)
		}
		if nodes == 1 && !v.Alive() {
			break
		}
		op(i)
	}
	if v.Alive() {
		if mode == "kill-point" && v.WaitExit(300*time.Millisecond) {
			rec.Count("proc_kill_points_hit", 1)
		} else {
			v.Kill()
			rec.Count("proc_killed_at_rest", 1)
			hit += "/at-rest"
		}
	} else if mode == "kill-point" {
		rec.Count("proc_kill_points_hit", 1)
		rec.Seen("proc_kill_points_reached", "zero/"+point)
	}
	rec.Count("proc_crashes", 1)
	v.Env = nil
	if snapEvery > 0 {
		v.Env = append(v.Env, "VERIF_SNAPSHOT_EVERY="+strconv.Itoa(snapEvery))
	}
	if victim > 0 && !rejoin {
		v.Join = "false"
	}
	if err := v.Start(); err != nil {
		rec.Inconclusive(desc + ": restart: " + err.Error())
		return
	}
	if err := v.WaitServing(60 * time.Second); err != nil {
		if !v.Alive() {
			violation("dies-on-restart", "the restarted server exited: "+v.ExitReason())
			return
		}
		rec.Inconclusive(desc + ": restarted server not serving: " + err.Error())
		return
	}
	// logical quiescence: a marker created now is listed by every node
	var marker uuid.UUID
	for attempt := 0; attempt < 10 && uuid.Equal(marker, uuid.Nil); attempt++ {
		dimCtr++
		if m, err := srv[0].Create(dimCtr, 1, 1, pb.Space_Euclidean, 8*time.Second); err == nil {
			e := fromMeta(m)
			marker = e.id
			acked[e.id] = e
		} else {
			openDims = append(openDims, dimCtr)
			time.Sleep(500 * time.Millisecond)
		}
	}
	if uuid.Equal(marker, uuid.Nil) {
		for _, s := range srv {
			if !s.Alive() {
				violation("dies-after-restart", fmt.Sprintf("node %d exited: %s", s.Id, s.ExitReason()))
				return
			}
		}
		rec.Inconclusive(desc + ": no catalogue entry could be created after the restart")
		return
	}
	if !waitFor(60*time.Second, func() bool {
		for _, s := range srv {
			l, err := listOf(s)
			if err != nil {
				return false
			}
			if _, ok := l[marker]; !ok {
				return false
			}
		}
		return true
	}) {
		for _, s := range srv {
			if !s.Alive() {
				violation("dies-after-restart", fmt.Sprintf("node %d exited: %s", s.Id, s.ExitReason()))
				return
			}
		}
		rec.Inconclusive(desc + ": the marker did not become visible on every node within a minute")
		return
	}
	isOpenDim := func(d uint32) bool {
		for _, x := range openDims {
			if x == d {
				return true
			}
		}
		return false
	}
	var first map[uuid.UUID]entry
	for _, s := range srv {
		l, err := listOf(s)
		if err != nil {
			rec.Inconclusive(fmt.Sprintf("%s: List on node %d: %v", desc, s.Id, err))
			return
		}
		for id, want := range acked {
			got, ok := l[id]
			if !ok {
				violation("acknowledged-dataset-missing", fmt.Sprintf("node %d does not list %s", s.Id, want))
				return
			}
			if got.String() != want.String() {
				// replica assignments may have been changed by the allocator (under-replicated datasets); everything else is fixed
				if got.dim != want.dim || got.space != want.space || fmt.Sprint(got.parts) != fmt.Sprint(want.parts) {
					violation("dataset-differs", fmt.Sprintf("node %d lists %s, acknowledged %s", s.Id, got, want))
					return
				}
			}
		}
		for id, e := range l {
			if deleted[id] {
				violation("deleted-dataset-listed", fmt.Sprintf("node %d lists %s whose deletion was acknowledged", s.Id, e))
				return
			}
			if _, ok := acked[id]; !ok && !openDeletes[id] && !isOpenDim(e.dim) {
				violation("unknown-dataset-listed", fmt.Sprintf("node %d lists %s which was never created", s.Id, e))
				return
			}
		}
		if first == nil {
			first = l
		} else {
			if len(l) != len(first) {
				violation("catalogues-differ-between-nodes", fmt.Sprintf("node %d lists %d datasets, node %d lists %d", s.Id, len(l), srv[0].Id, len(first)))
				return
			}
			for id, e := range l {
				if f, ok := first[id]; !ok || f.String() != e.String() {
					violation("catalogues-differ-between-nodes", fmt.Sprintf("node %d lists %s, node %d lists %v", s.Id, e, srv[0].Id, first[id]))
					return
				}
			}
		}
		rec.Count("proc_catalogues_compared", 1)
		rec.Count("catalogues_compared", 1)
	}
	rec.Case(mon.Digest(desc), len(deleted) > 0 || len(acked) > 1)
	if rec.WantSample() {
		rec.Sample(map[string]interface{}{"desc": desc, "steps": steps})
	}
}
