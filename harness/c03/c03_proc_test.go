// C03 on real processes: cmd/anndb servers (built with the verif tag) are
// killed with SIGKILL - from outside at a seeded moment of the write storm, or
// by themselves at the k-th hit of a ready-loop point (before / after the log
// write, after apply, around snapshot+compaction) - and restarted on the same
// data directory. Nothing is flushed or closed on the way down, so a write
// that was acknowledged from memory only does not survive here although it
// survives the in-process rig's teardown (which closes Badger).
package c03

import (
	"fmt"
	"os"
	"path/filepath"
	"strconv"
	"sync"
	"sync/atomic"
	"syscall"
	"testing"
	"time"

	"github.com/marekgalovic/anndb/index"
	pb "github.com/marekgalovic/anndb/protobuf"
	uuid "github.com/satori/go.uuid"
	"verif/harness/cw"
	"verif/harness/mon"
	"verif/harness/proc"
)

var killPoints = []string{"beforeSave", "beforeSave", "beforeSave", "afterSave", "afterSave", "applied", "applied", "beforeSendFollower", "afterAdvance", "snapshot.trigger", "snapshot.done"}

func TestC03Proc(t *testing.T) {
	rec := shared
	if proc.Bin() == "" {
		rec.Inconclusive("real-process part skipped: VERIF_ANNDB_BIN not set")
		return
	}
	n := rec.N(24, 400)
	var wg sync.WaitGroup
	sem := make(chan struct{}, 2)
	for c := 0; c < n; c++ {
		if !rec.Mine(c) {
			continue
		}
		wg.Add(1)
		sem <- struct{}{}
		go func(c int) {
			defer wg.Done()
			defer func() { <-sem }()
			procCase(rec, c)
		}(c)
	}
	wg.Wait()
}

type pcase struct {
	rec     *mon.Recorder
	desc    string
	srv     []*proc.Server
	victim  int
	ds      uuid.UUID
	pid     string
	wl      *cw.Workload
	replay  map[string]interface{}
	hitKind string
}

func (p *pcase) logs() map[string][]string {
	out := map[string][]string{}
	for _, s := range p.srv {
		b, _ := os.ReadFile(s.LogPath())
		lines := splitLines(string(b))
		if len(lines) > 60 {
			lines = lines[len(lines)-60:]
		}
		out[fmt.Sprint(s.Id)] = lines
	}
	return out
}

func splitLines(s string) []string {
	var out []string
	cur := ""
	for _, ch := range s {
		if ch == '\n' {
			if len(cur) > 300 {
				cur = cur[:300]
			}
			out = append(out, cur)
			cur = ""
		} else {
			cur += string(ch)
		}
	}
	return out
}

func (p *pcase) violation(sym, detail string) {
	p.replay["client_histories"] = p.histories()
	p.replay["server_log_tails"] = p.logs()
	p.rec.Violation("proc:"+sym+":"+p.hitKind, p.desc+": "+detail, p.replay)
}

func (p *pcase) histories() map[string][]string {
	h := map[string][]string{}
	if p.wl != nil {
		for _, c := range p.wl.Clients {
			h[fmt.Sprint(c.N)] = c.Hist
		}
	}
	return h
}

// partition returns the dump of the case's partition on a server, or nil.
func (p *pcase) partition(s *proc.Server) (*proc.DumpPartition, error) {
	d, err := s.Dump(10 * time.Second)
	if err != nil {
		return nil, err
	}
	ds := d.Datasets[p.ds.String()]
	if ds == nil {
		return nil, nil
	}
	return ds[p.pid], nil
}

func (p *pcase) waitFor(d time.Duration, cond func() bool) bool {
	deadline := time.Now().Add(d)
	for time.Now().Before(deadline) {
		if cond() {
			return true
		}
		time.Sleep(100 * time.Millisecond)
	}
	return cond()
}

func procCase(rec *mon.Recorder, c int) {
	rng := rec.Rand("c03-proc", c)
	nodes := 1
	if c%3 == 2 {
		nodes = 3
	}
	mode := "kill-point"
	if rng.Intn(3) == 0 {
		mode = "sigkill"
	}
	point := killPoints[rng.Intn(len(killPoints))]
	group := []string{"partition", "partition", "zero", "any"}[rng.Intn(4)]
	snapEvery := 0
	if rng.Intn(3) != 0 || point == "snapshot.trigger" || point == "snapshot.done" {
		snapEvery = 2 + rng.Intn(6)
	}
	k := 1 + rng.Intn(20)
	if point == "snapshot.trigger" || point == "snapshot.done" {
		k = 1 + rng.Intn(4)
		if group == "zero" {
			group = "any"
		}
	}
	if group == "zero" {
		k = 1 + rng.Intn(3) // the zero group is almost idle while items are written
	}
	victim := 0
	if nodes == 3 {
		victim = rng.Intn(3)
	}
	rejoin := rng.Intn(3) != 0
	killAfterAcks := int64(1 + rng.Intn(22))
	pause := c%4 < 2 || point == "beforeSave"
	p := &pcase{rec: rec, victim: victim}
	p.hitKind = mode
	if mode == "kill-point" {
		p.hitKind = group + "/" + point
	}
	p.desc = fmt.Sprintf("proc case=%d nodes=%d victim=%d mode=%s point=%s:%s@%d snapshot-every=%d rejoin=%v kill-after-acks=%d pause-before-kill=%v", c, nodes, victim+1, mode, group, point, k, snapEvery, rejoin, killAfterAcks, pause)
	p.replay = map[string]interface{}{"desc": p.desc, "seed": rec.Seed()}
	rec.Current(p.desc)
	dir := filepath.Join(os.Getenv("VERIF_SCRATCH"), fmt.Sprintf("c03proc-%d", c))
	defer os.RemoveAll(dir)
	defer func() {
		for _, s := range p.srv {
			s.Kill()
		}
	}()
	// start the cluster
	for i := 0; i < nodes; i++ {
		join := ""
		if i > 0 {
			join = p.srv[0].Addr()
		}
		s := proc.New(uint64(i+1), filepath.Join(dir, fmt.Sprintf("n%d", i+1)), join)
		if snapEvery > 0 {
			s.Env = append(s.Env, "VERIF_SNAPSHOT_EVERY="+strconv.Itoa(snapEvery))
		}
		if i == victim && mode == "kill-point" {
			s.Env = append(s.Env, fmt.Sprintf("VERIF_KILL_AT=%s:%s@%d", group, point, k), "VERIF_KILL_ARM=signal")
			if pause {
				// the loop that reached the point is held for 10 ms before the process dies: replies that
				// were already on their way out leave, nothing more is written by that loop
				s.Env = append(s.Env, "VERIF_KILL_DELAY=10ms")
			}
		}
		p.srv = append(p.srv, s)
		if err := s.Start(); err != nil {
			rec.Inconclusive(p.desc + ": start: " + err.Error())
			return
		}
		if err := s.WaitServing(60 * time.Second); err != nil {
			rec.Inconclusive(p.desc + ": fresh server not serving: " + err.Error())
			return
		}
	}
	if nodes > 1 {
		ok := p.waitFor(60*time.Second, func() bool {
			for _, s := range p.srv {
				d, err := s.Dump(5 * time.Second)
				if err != nil || len(d.Nodes) != nodes {
					return false
				}
			}
			return true
		})
		if !ok {
			rec.Inconclusive(p.desc + ": the members did not learn of each other within a minute")
			return
		}
	}
	meta, err := p.srv[0].Create(3, 1, uint32(nodes), pb.Space_Euclidean, 30*time.Second)
	if err != nil {
		rec.Inconclusive(p.desc + ": create dataset: " + err.Error())
		return
	}
	p.ds = uuid.FromBytesOrNil(meta.Id)
	p.pid = uuid.FromBytesOrNil(meta.Partitions[0].Id).String()
	ready := func(s *proc.Server) bool {
		part, err := p.partition(s)
		return err == nil && part != nil && part.Loaded && part.Raft != nil && part.Raft.Lead != 0
	}
	if !p.waitFor(60*time.Second, func() bool {
		for _, s := range p.srv {
			if !ready(s) {
				return false
			}
		}
		return true
	}) {
		rec.Inconclusive(p.desc + ": the partition did not get a leader on every replica within a minute")
		return
	}
	v := p.srv[victim]
	// the write storm
	p.wl = cw.New(4, 3, 1)
	if mode == "kill-point" {
		syscall.Kill(v.Pid(), syscall.SIGUSR2) // count the kill point's hits from here
		time.Sleep(50 * time.Millisecond)
	}
	var killed int32
	stopKiller := make(chan struct{})
	var kwg sync.WaitGroup
	if mode == "sigkill" {
		kwg.Add(1)
		go func() {
			defer kwg.Done()
			for {
				select {
				case <-stopKiller:
					return
				default:
				}
				if atomic.LoadInt64(&p.wl.Acks) >= killAfterAcks {
					time.Sleep(time.Duration(rng.Intn(4000)) * time.Microsecond)
					v.Kill()
					atomic.StoreInt32(&killed, 1)
					return
				}
				time.Sleep(200 * time.Microsecond)
			}
		}()
	}
	p.drive(c, 0, victim, nodes)
	close(stopKiller)
	kwg.Wait()
	if v.Alive() {
		if mode == "kill-point" && v.WaitExit(300*time.Millisecond) {
			rec.Count("proc_kill_points_hit", 1)
		} else {
			// the point was not reached (or the storm ended first): crash at rest
			v.Kill()
			rec.Count("proc_killed_at_rest", 1)
			p.hitKind += "/at-rest"
		}
	} else if mode == "kill-point" {
		rec.Count("proc_kill_points_hit", 1)
		rec.Seen("proc_kill_points_reached", group+"/"+point)
	} else {
		rec.Count("proc_sigkills_during_storm", 1)
	}
	rec.Count("proc_crashes", 1)
	// restart on the same data directory
	v.Env = nil
	if snapEvery > 0 {
		v.Env = append(v.Env, "VERIF_SNAPSHOT_EVERY="+strconv.Itoa(snapEvery))
	}
	if victim > 0 && !rejoin {
		v.Join = "false"
	}
	if err := v.Start(); err != nil {
		rec.Inconclusive(p.desc + ": restart: " + err.Error())
		return
	}
	if err := v.WaitServing(60 * time.Second); err != nil {
		if !v.Alive() {
			p.violation("dies-on-restart", "the restarted server exited: "+v.ExitReason())
			return
		}
		rec.Inconclusive(p.desc + ": restarted server not serving: " + err.Error())
		return
	}
	// recovered = partition loaded, a leader known, everything committed applied; replicas level
	level := func() (bool, string) {
		var applied []uint64
		for _, s := range p.srv {
			part, err := p.partition(s)
			if err != nil {
				return false, fmt.Sprintf("node %d: %v", s.Id, err)
			}
			if part == nil || !part.Loaded || part.Raft == nil {
				return false, fmt.Sprintf("node %d: partition not loaded", s.Id)
			}
			if part.Raft.Lead == 0 || part.Raft.Applied != part.Raft.Commit {
				return false, fmt.Sprintf("node %d: lead=%d applied=%d commit=%d", s.Id, part.Raft.Lead, part.Raft.Applied, part.Raft.Commit)
			}
			applied = append(applied, part.Raft.Applied)
		}
		for _, a := range applied {
			if a != applied[0] {
				return false, fmt.Sprintf("applied indexes %v", applied)
			}
		}
		return true, fmt.Sprintf("applied %v", applied)
	}
	state := ""
	if !p.waitFor(60*time.Second, func() bool { ok, s := level(); state = s; return ok }) {
		for _, s := range p.srv {
			if !s.Alive() {
				p.violation("dies-after-restart", fmt.Sprintf("node %d exited: %s", s.Id, s.ExitReason()))
				return
			}
		}
		// stuck or slow? look again after a second window
		first := state
		if !p.waitFor(60*time.Second, func() bool { ok, s := level(); state = s; return ok }) {
			if state == first {
				p.violation("not-recovered", "two minutes after the restart the replicas are not level and nothing moves: "+state)
			} else {
				rec.Inconclusive(p.desc + ": not level after two minutes but still moving: " + first + " -> " + state)
			}
			return
		}
	}
	if !p.check("after restart") {
		return
	}
	// resolve open operations from what was recovered, continue, compare again
	if part, err := p.partition(v); err == nil && part != nil {
		found, _ := collect(part, p.wl)
		for _, cl := range p.wl.Clients {
			if cl.Open != nil {
				cl.Acked, cl.Open = found[cl.N], nil
				if cl.Acked.Ver == 0 {
					cl.Acked = cw.State{}
				}
			}
		}
	}
	p.drive(c, 1000, -1, nodes)
	if !p.waitFor(60*time.Second, func() bool { ok, s := level(); state = s; return ok }) {
		rec.Inconclusive(p.desc + ": replicas not level after continuing the workload: " + state)
		return
	}
	if !p.check("after continuing the workload") {
		return
	}
	for _, s := range p.srv {
		if !s.Alive() {
			p.violation("dies-after-restart", fmt.Sprintf("node %d exited: %s", s.Id, s.ExitReason()))
			return
		}
	}
	rec.Case(mon.Digest(p.desc), true)
	if rec.WantSample() {
		rec.Sample(map[string]interface{}{"desc": p.desc, "client_histories": p.histories()})
	}
}

// drive runs 4 sequential per-id clients, 7 steps each, through the servers
// that are expected to stay up (all of them when victim < 0).
func (p *pcase) drive(c, salt, victim, nodes int) {
	var wg sync.WaitGroup
	for g, cl := range p.wl.Clients {
		wg.Add(1)
		go func(g int, cl *cw.IdClient) {
			defer wg.Done()
			rng := p.rec.Rand(fmt.Sprintf("c03-proc-client-%d-%d", c+salt, g), 0)
			for i := 0; i < 7; i++ {
				var s *proc.Server
				for off := 0; off < nodes; off++ {
					cand := p.srv[(g+off)%nodes]
					if nodes > 1 && int(cand.Id)-1 == victim {
						continue
					}
					s = cand
					break
				}
				if s == nil || (nodes == 1 && !s.Alive()) {
					return
				}
				// a real process dies at one instant: a call that returned success was
				// answered before the death, so success alone means acknowledged
				p.wl.StepW(rng, cl, &proc.Client{S: s, Ds: p.ds}, 8*time.Second, nil)
			}
		}(g, cl)
	}
	wg.Wait()
}

func collect(part *proc.DumpPartition, wl *cw.Workload) (map[int]cw.State, []string) {
	d := &index.VerifDump{Vertices: map[uuid.UUID]*index.VerifVertex{}}
	for ids, it := range part.Items {
		id, err := uuid.FromString(ids)
		if err != nil {
			continue
		}
		d.Vertices[id] = &index.VerifVertex{Id: id, Vector: it.Vector, Metadata: index.Metadata(it.Metadata)}
	}
	found := map[int]cw.State{}
	var foreign []string
	cw.Collect(d, wl.Known(), found, &foreign)
	return found, foreign
}

func (p *pcase) check(when string) bool {
	for _, s := range p.srv {
		part, err := p.partition(s)
		if err != nil || part == nil {
			p.violation("partition-missing", fmt.Sprintf("node %d %s: %v", s.Id, when, err))
			return false
		}
		found, foreign := collect(part, p.wl)
		if sym, detail := p.wl.Check(found, foreign); sym != "" {
			p.violation(sym, fmt.Sprintf("node %d %s: %s", s.Id, when, detail))
			return false
		}
		if int(part.Len) != len(part.Items) {
			p.violation("len-counter-differs-from-items", fmt.Sprintf("node %d %s: Len=%d items=%d", s.Id, when, part.Len, len(part.Items)))
			return false
		}
		p.rec.Count("proc_recovered_states_checked", 1)
	}
	return true
}
