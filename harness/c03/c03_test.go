// C03 — acknowledged writes survive a crash at any instant and restart.
// Crash points are the durable-write boundaries of the raft log stores: a pilot
// run counts them, then the same seeded workload is re-run once per boundary
// and side with the crash armed there.
package c03

import (
	"fmt"
	"os"
	"sync"
	"sync/atomic"
	"testing"
	"time"

	"github.com/marekgalovic/anndb/index"
	pb "github.com/marekgalovic/anndb/protobuf"
	"github.com/marekgalovic/anndb/storage"
	uuid "github.com/satori/go.uuid"
	"verif/harness/cw"
	"verif/harness/mon"
	"verif/harness/sim"
)

// one recorder for the package: TestC03 (in-process servers, crash at every
// durable-write boundary) and TestC03Proc (real server processes, SIGKILL) feed
// the same evidence
var shared *mon.Recorder

func TestMain(m *testing.M) {
	shared = mon.Open("C03")
	code := m.Run()
	shared.Close()
	os.Exit(code)
}

func TestC03(t *testing.T) {
	rec := shared
	seeds := rec.N(1, 3)
	job := 0
	for s := 0; s < seeds; s++ {
		// topology A: one node, one replica — zero group and partition group crash together
		K := pilot(rec, s, 1)
		if K <= 0 {
			continue
		}
		for k := 1; k <= K; k++ {
			for _, side := range []string{"before", "after"} {
				job++
				if rec.Mine(job) {
					crashRun(rec, s, 1, k, side, K)
				}
			}
		}
		// topology B: three nodes, three replicas, a minority crashes while clients continue
		K3 := pilot(rec, s, 3)
		if K3 <= 0 {
			continue
		}
		samples := rec.N(20, K3)
		for i := 0; i < samples; i++ {
			k := 1 + (i*K3)/samples
			side := []string{"before", "after"}[i%2]
			job++
			if rec.Mine(job) {
				crashRun(rec, s, 3, k, side, K3)
			}
		}
	}
}

type run struct {
	cl    *sim.Cluster
	wl    *cw.Workload
	dsId  uuid.UUID
	pids  []uuid.UUID
	desc  string
	nodes int
}

func setup(rec *mon.Recorder, s, nodes int, tag string) (*run, error) {
	r := &run{nodes: nodes}
	r.cl = sim.New(sim.Options{Nodes: nodes, Dir: os.Getenv("VERIF_SCRATCH") + "/c03-" + tag, TickEvery: 5 * time.Millisecond, Seed: rec.Seed() + int64(s)})
	if err := r.cl.Start(); err != nil {
		return r, fmt.Errorf("cluster start: %v", err)
	}
	repl := uint32(1)
	if nodes == 3 {
		repl = 3
	}
	dsId, meta, err := r.cl.CreateDataset(0, 3, 1, repl, pb.Space_Euclidean)
	if err != nil {
		return r, fmt.Errorf("create dataset: %v", err)
	}
	r.dsId = dsId
	for _, p := range meta.Partitions {
		r.pids = append(r.pids, uuid.FromBytesOrNil(p.Id))
	}
	r.wl = cw.New(4, 3, 1)
	return r, nil
}

// drive runs the seeded workload: 4 sequential per-id clients, ~28 writes in
// total, with forced snapshot+compaction of the partition group and the zero
// group in between. victim is the node whose crash is armed (its index in
// cl.Nodes); clients use the other nodes when there are any.
func (r *run) drive(rec *mon.Recorder, s int, victim int, crashed func() bool) {
	var wg sync.WaitGroup
	target := func(g int) cw.Target {
		return func() *storage.Dataset {
			for off := 0; off < r.nodes; off++ {
				n := r.cl.Nodes[(g+off)%r.nodes]
				if r.nodes > 1 && n.Idx == victim {
					continue // clients keep writing through the surviving nodes
				}
				if n.Dead() || n.In == nil {
					continue
				}
				return n.Dataset(r.dsId)
			}
			return nil
		}
	}
	for g, c := range r.wl.Clients {
		wg.Add(1)
		go func(g int, c *cw.IdClient) {
			defer wg.Done()
			rng := rec.Rand(fmt.Sprintf("c03-client-%d-%d", s, g), 0)
			for i := 0; i < 7; i++ {
				if r.nodes == 1 && crashed() {
					return
				}
				r.wl.Step(rng, c, target(g), 3*time.Second, func() bool { return r.nodes == 1 && crashed() })
				if (i == 2 || i == 4) && victim >= 0 {
					v := r.cl.Nodes[victim]
					if !v.Dead() {
						if g == 0 {
							r.cl.TriggerSnapshot(v, r.pids[0], 0)
						}
						if g == 1 {
							r.cl.TriggerSnapshot(v, uuid.Nil, 0)
						}
					}
				}
			}
		}(g, c)
	}
	wg.Wait()
}

func pilot(rec *mon.Recorder, s, nodes int) int {
	r, err := setup(rec, s, nodes, fmt.Sprintf("pilot-%d-%d", s, nodes))
	defer func() {
		if r.cl != nil {
			r.cl.Close()
		}
	}()
	if err != nil {
		rec.Inconclusive(fmt.Sprintf("pilot seed=%d nodes=%d: %v", s, nodes, err))
		return 0
	}
	victim := nodes - 1
	r.cl.ResetWriteCount(victim)
	r.drive(rec, s, victim, func() bool { return false })
	time.Sleep(100 * time.Millisecond)
	K := r.cl.DurableWrites(victim)
	rec.Max(fmt.Sprintf("durable_write_boundaries_nodes%d", nodes), int64(K))
	return K
}

func crashRun(rec *mon.Recorder, s, nodes, k int, side string, K int) {
	desc := fmt.Sprintf("seed=%d nodes=%d crash at durable write %d/%d %s", s, nodes, k, K, side)
	rec.Current(desc)
	r, err := setup(rec, s, nodes, fmt.Sprintf("run-%d-%d-%d-%s", s, nodes, k, side))
	defer func() {
		if r.cl != nil {
			r.cl.Close()
		}
	}()
	if err != nil {
		rec.Inconclusive(desc + ": " + err.Error())
		return
	}
	victim := nodes - 1
	var crashedFlag int32
	var hit string
	r.cl.OnCrash = func(n *sim.Node, cp *sim.CrashPoint) {
		atomic.StoreInt32(&crashedFlag, 1)
		hit = cp.Hit
	}
	cp := r.cl.ArmCrash(victim, k, side)
	r.drive(rec, s, victim, func() bool { return atomic.LoadInt32(&crashedFlag) == 1 })
	r.cl.Disarm()
	fired := atomic.LoadInt32(&crashedFlag) == 1
	_ = cp
	replay := map[string]interface{}{"desc": desc, "seed": rec.Seed(), "hit": hit}
	hist := map[string][]string{}
	for _, c := range r.wl.Clients {
		hist[fmt.Sprint(c.N)] = c.Hist
	}
	replay["client_histories"] = hist
	if !fired {
		// the run performed fewer durable writes than the pilot (scheduling):
		// still a legal run without a crash, checked below after a plain restart
		rec.Count("crash_point_not_reached", 1)
	} else {
		rec.Seen("crash_points_reached", hit)
		rec.Count("crashes", 1)
	}
	// restart the victim on the same data directory
	if err := r.cl.Restart(victim); err != nil {
		rec.Violation("restart-failed:"+classify(hit), desc+": "+err.Error(), replay)
		return
	}
	if f := r.cl.Fatals(); len(f) > 0 {
		rec.Violation("fatal-during-run:"+classify(hit), fmt.Sprintf("%s: %+v", desc, f[0]), replay)
		return
	}
	// recovered = the restarted node has the dataset, its partition group is
	// loaded, a leader exists and it has applied everything committed
	v := r.cl.Nodes[victim]
	err = r.cl.WaitFor(15*time.Second, func() bool {
		g := v.PartitionRaft(r.dsId, r.pids[0])
		if g == nil {
			return false
		}
		st := g.VerifStatus()
		return st.Lead != 0 && st.Applied == st.Commit && st.Commit > 0
	})
	if err != nil {
		sym := "not-recovered"
		if v.Dataset(r.dsId) == nil {
			sym = "dataset-missing-after-restart"
		} else if v.PartitionRaft(r.dsId, r.pids[0]) == nil {
			sym = "partition-not-loaded-after-restart"
		}
		if f := r.cl.Fatals(); len(f) > 0 {
			rec.Violation("fatal-after-restart:"+classify(hit), fmt.Sprintf("%s: %+v", desc, f[0]), replay)
			return
		}
		rec.Violation(sym+":"+classify(hit), desc+": the restarted node did not come back to a serving state within the watchdog (no leader / applied < commit)", replay)
		return
	}
	// in the replicated topology wait until the restarted replica has caught up with the others
	if nodes > 1 {
		r.cl.WaitFor(15*time.Second, func() bool {
			var a []uint64
			for _, n := range r.cl.Nodes {
				g := n.PartitionRaft(r.dsId, r.pids[0])
				if g == nil {
					return false
				}
				a = append(a, g.VerifStatus().Applied)
			}
			return a[0] == a[1] && a[1] == a[2]
		})
	}
	check := func(n *sim.Node, when string) bool {
		var idx *index.Hnsw
		if !r.cl.Guard(5*time.Second, func() { idx = n.PartitionIndex(r.dsId, r.pids[0]) }) {
			rec.Violation("node-wedged-after-restart:"+classify(hit), fmt.Sprintf("%s: node %d %s: a call into its dataset manager did not return", desc, n.Id, when), replay)
			return false
		}
		if idx == nil {
			rec.Violation("partition-not-loaded-after-restart:"+classify(hit), fmt.Sprintf("%s: node %d %s", desc, n.Id, when), replay)
			return false
		}
		found := map[int]cw.State{}
		var foreign []string
		cw.Collect(idx.VerifDump(), r.wl.Known(), found, &foreign)
		if sym, detail := r.wl.Check(found, foreign); sym != "" {
			books := map[string]interface{}{}
			for _, m := range r.cl.Nodes {
				if m.In != nil {
					books[fmt.Sprint(m.Id)] = m.In.ClusterConn.Nodes()
					if g := m.PartitionRaft(r.dsId, r.pids[0]); g != nil {
						st := g.VerifStatus()
						books[fmt.Sprintf("raft%d", m.Id)] = fmt.Sprintf("term=%d lead=%d commit=%d applied=%d state=%s", st.Term, st.Lead, st.Commit, st.Applied, st.RaftState)
					}
				}
			}
			replay["address_books_and_raft_status"] = books
			rec.Violation(sym+":"+classify(hit), fmt.Sprintf("%s: node %d %s: %s | %v", desc, n.Id, when, detail, books), replay)
			return false
		}
		rec.Count("recovered_states_checked", 1)
		return true
	}
	ok := true
	for _, n := range r.cl.Nodes {
		if n.Idx == victim || nodes > 1 {
			ok = ok && check(n, "after restart")
		}
	}
	// continue the workload after recovery and compare again (fresh clients for retired ids)
	if ok {
		for _, c := range r.wl.Clients {
			if c.Open != nil {
				// resolve the open operation from what was recovered
				var idx *index.Hnsw
				r.cl.Guard(5*time.Second, func() { idx = v.PartitionIndex(r.dsId, r.pids[0]) })
				if idx == nil {
					continue
				}
				found := map[int]cw.State{}
				var foreign []string
				cw.Collect(idx.VerifDump(), r.wl.Known(), found, &foreign)
				c.Acked, c.Open = found[c.N], nil
				if c.Acked.Ver == 0 {
					c.Acked = cw.State{}
				}
			}
		}
		r.drive(rec, s+1000, -1, func() bool { return false })
		time.Sleep(50 * time.Millisecond)
		if nodes > 1 {
			r.cl.WaitFor(10*time.Second, func() bool {
				var a []uint64
				for _, n := range r.cl.Nodes {
					g := n.PartitionRaft(r.dsId, r.pids[0])
					if g == nil {
						return false
					}
					a = append(a, g.VerifStatus().Applied)
				}
				return a[0] == a[1] && a[1] == a[2]
			})
		}
		for _, n := range r.cl.Nodes {
			check(n, "after continuing the workload")
		}
	}
	if f := r.cl.Fatals(); len(f) > 0 {
		rec.Violation("fatal-after-restart:"+classify(hit), fmt.Sprintf("%s: %+v", desc, f[0]), replay)
	}
	rec.Case(mon.Digest(desc), fired)
	if rec.WantSample() && fired {
		rec.Sample(replay)
	}
}

// classify reduces a crash point to its kind for signatures: zero|partition / call / side
func classify(hit string) string {
	if hit == "" {
		return "no-crash"
	}
	// "<zero|partition>/<call>/#n/<side>"
	parts := make([]string, 0, 4)
	cur := ""
	for _, ch := range hit {
		if ch == '/' {
			parts = append(parts, cur)
			cur = ""
		} else {
			cur += string(ch)
		}
	}
	parts = append(parts, cur)
	if len(parts) == 4 {
		return parts[0] + "/" + parts[1] + "/" + parts[3]
	}
	return hit
}
