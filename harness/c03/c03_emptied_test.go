// C03, a minority replica is away while the partition is emptied: every item is removed (acknowledged) and the
// remaining replicas compact their logs into a snapshot taken at that moment - the snapshot of a partition that holds
// nothing. The replica that was away restarts holding what its own log gives it (the items), and is brought up to
// date by that snapshot and the entries behind it. What it holds afterwards must be the acknowledged history: none of
// the removed items, and whatever was written after the snapshot. A control half of the cases leaves one item in place.
package c03

import (
	"fmt"
	"os"
	"testing"
	"time"

	"github.com/marekgalovic/anndb/index"
	pb "github.com/marekgalovic/anndb/protobuf"
	"github.com/marekgalovic/anndb/storage"
	uuid "github.com/satori/go.uuid"
	"verif/harness/cw"
	"verif/harness/mon"
	"verif/harness/sim"
)

func TestC03Emptied(t *testing.T) {
	rec := shared
	n := rec.N(6, 60)
	for c := 0; c < n; c++ {
		if rec.Mine(c) {
			emptiedCase(rec, c)
		}
	}
}

func emptiedCase(rec *mon.Recorder, c int) {
	rng := rec.Rand("c03-emptied", c)
	leaveOne := c%3 == 2
	writesAfter := c%2 == 0
	desc := fmt.Sprintf("emptied-while-a-replica-is-away case=%d leave-one-item=%v writes-after-the-snapshot=%v", c, leaveOne, writesAfter)
	rec.Current(desc)
	cl := sim.New(sim.Options{Nodes: 3, Dir: os.Getenv("VERIF_SCRATCH") + fmt.Sprintf("/c03e-%d", c), TickEvery: 5 * time.Millisecond, Seed: rec.Seed() + int64(c), SimNet: true})
	defer cl.Close()
	if err := cl.Start(); err != nil {
		rec.Inconclusive(desc + ": cluster start: " + err.Error())
		return
	}
	dsId, meta, err := cl.CreateDataset(0, 3, 1, 3, pb.Space_Euclidean)
	if err != nil {
		rec.Inconclusive(desc + ": create dataset: " + err.Error())
		return
	}
	pid := uuid.FromBytesOrNil(meta.Partitions[0].Id)
	wl := cw.New(5, 3, 1)
	var steps []string
	note := func(s string) { steps = append(steps, s) }
	replay := func() map[string]interface{} {
		h := map[string][]string{}
		for _, cli := range wl.Clients {
			h[fmt.Sprint(cli.N)] = cli.Hist
		}
		return map[string]interface{}{"desc": desc, "seed": rec.Seed(), "steps": steps, "client_histories": h}
	}
	leaderOf := func() *sim.Node {
		var l *sim.Node
		cl.WaitFor(15*time.Second, func() bool {
			for _, n := range cl.Nodes {
				if n.Dead() {
					continue
				}
				if g := n.PartitionRaft(dsId, pid); g != nil {
					st := g.VerifStatus()
					if st.Lead == n.Id && st.RaftState.String() == "StateLeader" {
						l = n
						return true
					}
				}
			}
			return false
		})
		return l
	}
	via := func(n *sim.Node) cw.Target {
		return func() *storage.Dataset {
			if n.Dead() || n.In == nil {
				return nil
			}
			return n.Dataset(dsId)
		}
	}
	A := leaderOf()
	if A == nil {
		rec.Inconclusive(desc + ": the partition group has no leader")
		return
	}
	var others []*sim.Node
	for _, i := range rng.Perm(3) {
		if cl.Nodes[i] != A {
			others = append(others, cl.Nodes[i])
		}
	}
	F, B := others[0], others[1]
	note(fmt.Sprintf("leader n%d, replica that goes away n%d", A.Id, F.Id))
	wl.Force = "insert"
	for _, cli := range wl.Clients {
		wl.Step(rng, cli, via(A), 3*time.Second, nil)
	}
	wl.Force = ""
	for i := 0; i < 6; i++ {
		wl.Step(rng, wl.Clients[rng.Intn(len(wl.Clients))], via(A), 3*time.Second, nil)
	}
	// the replica is level with the others when it goes
	cl.WaitFor(5*time.Second, func() bool {
		ga, gf := A.PartitionRaft(dsId, pid), F.PartitionRaft(dsId, pid)
		if ga == nil || gf == nil {
			return false
		}
		return gf.VerifStatus().Applied == ga.VerifStatus().Commit
	})
	held := 0
	if idx := F.PartitionIndex(dsId, pid); idx != nil {
		held = idx.Len()
	}
	cl.Crash(F.Idx)
	note(fmt.Sprintf("n%d crashed holding %d items", F.Id, held))
	// everything is removed (but one item in the control cases)
	wl.Force = "remove"
	for i, cli := range wl.Clients {
		if leaveOne && i == 0 {
			continue
		}
		wl.Step(rng, cli, via(A), 3*time.Second, nil)
		if cli.Open != nil {
			rec.Inconclusive(desc + ": a removal with two of three replicas up was not acknowledged")
			return
		}
	}
	wl.Force = ""
	left := -1
	if idx := A.PartitionIndex(dsId, pid); idx != nil {
		left = idx.Len()
	}
	for _, n := range []*sim.Node{A, B} {
		cl.TriggerSnapshot(n, pid, 0)
	}
	time.Sleep(50 * time.Millisecond)
	note(fmt.Sprintf("the leader holds %d items; both remaining replicas compacted their logs", left))
	if writesAfter {
		for i := 0; i < 3; i++ {
			wl.Step(rng, wl.Clients[1+rng.Intn(len(wl.Clients)-1)], via(A), 3*time.Second, nil)
		}
	}
	if err := cl.Restart(F.Idx); err != nil {
		rec.Inconclusive(desc + ": restart: " + err.Error())
		return
	}
	note(fmt.Sprintf("n%d restarted", F.Id))
	if f := cl.Fatals(); len(f) > 0 {
		rec.Violation("emptied:fatal", fmt.Sprintf("%s: %+v", desc, f[0]), replay())
		return
	}
	level := func() bool {
		var a []uint64
		for _, n := range cl.Nodes {
			g := n.PartitionRaft(dsId, pid)
			if g == nil {
				return false
			}
			st := g.VerifStatus()
			if st.Lead == 0 || st.Applied != st.Commit {
				return false
			}
			a = append(a, st.Applied)
		}
		return a[0] == a[1] && a[1] == a[2]
	}
	if cl.WaitFor(30*time.Second, level) != nil && cl.WaitFor(30*time.Second, level) != nil {
		if f := cl.Fatals(); len(f) > 0 {
			rec.Violation("emptied:fatal", fmt.Sprintf("%s: %+v", desc, f[0]), replay())
			return
		}
		rec.Inconclusive(desc + ": the three replicas did not become level within a minute")
		return
	}
	if w := cl.WAL(F, pid); w != nil {
		if snap, err := w.Inner().Snapshot(); err == nil && snap.Metadata.Index > 0 {
			rec.Count("emptied_replicas_caught_up_by_snapshot", 1)
			if left == 0 {
				rec.Count("emptied_replicas_caught_up_by_the_snapshot_of_an_empty_partition", 1)
			}
		}
	}
	for _, n := range cl.Nodes {
		var idx *index.Hnsw
		if !cl.Guard(5*time.Second, func() { idx = n.PartitionIndex(dsId, pid) }) || idx == nil {
			rec.Inconclusive(fmt.Sprintf("%s: node %d: partition index not readable", desc, n.Id))
			return
		}
		found := map[int]cw.State{}
		var foreign []string
		cw.Collect(idx.VerifDump(), wl.Known(), found, &foreign)
		if sym, detail := wl.Check(found, foreign); sym != "" {
			who := "replica-that-stayed"
			if n == F {
				who = "replica-that-was-away"
			}
			rec.Violation("emptied:"+sym+":"+who, fmt.Sprintf("%s: node %d after all three replicas are level: %s | steps %v", desc, n.Id, detail, steps), replay())
			return
		}
		rec.Count("recovered_states_checked", 1)
	}
	rec.Count("emptied_histories", 1)
	rec.Case(mon.Digest(desc), true)
}
