// C03, two faults in a row with never more than one replica down: the third replica of a group lags (appends to it
// are lost, heartbeats arrive), so a write can only be committed with the second replica's acknowledgement. That
// replica crashes at the durable write which stores the entry - before or after it - and restarts; then the leader
// crashes. Whatever was acknowledged to the client must be in what the two remaining replicas elect from.
package c03

import (
	"fmt"
	"os"
	"sync/atomic"
	"testing"
	"time"

	"github.com/coreos/etcd/raft/raftpb"
	"github.com/marekgalovic/anndb/index"
	pb "github.com/marekgalovic/anndb/protobuf"
	"github.com/marekgalovic/anndb/storage"
	uuid "github.com/satori/go.uuid"
	"verif/harness/cw"
	"verif/harness/mon"
	"verif/harness/sim"
)

func TestC03Quorum(t *testing.T) {
	rec := shared
	n := rec.N(6, 60)
	for c := 0; c < n; c++ {
		if rec.Mine(c) {
			quorumCase(rec, c)
		}
	}
}

func quorumCase(rec *mon.Recorder, c int) {
	rng := rec.Rand("c03-quorum", c)
	side := []string{"before", "after"}[c%2]
	desc := fmt.Sprintf("quorum-of-two case=%d: third replica lags, second replica crashes %s the write that stores the entry, then the leader crashes", c, side)
	rec.Current(desc)
	cl := sim.New(sim.Options{Nodes: 3, Dir: os.Getenv("VERIF_SCRATCH") + fmt.Sprintf("/c03q-%d", c), TickEvery: 5 * time.Millisecond, Seed: rec.Seed() + int64(c), SimNet: true})
	defer cl.Close()
	if err := cl.Start(); err != nil {
		rec.Inconclusive(desc + ": cluster start: " + err.Error())
		return
	}
	dsId, meta, err := cl.CreateDataset(0, 3, 1, 3, pb.Space_Euclidean)
	if err != nil {
		rec.Inconclusive(desc + ": create dataset: " + err.Error())
		return
	}
	pid := uuid.FromBytesOrNil(meta.Partitions[0].Id)
	wl := cw.New(4, 3, 1)
	var steps []string
	note := func(s string) { steps = append(steps, s) }
	replay := func() map[string]interface{} {
		h := map[string][]string{}
		for _, cli := range wl.Clients {
			h[fmt.Sprint(cli.N)] = cli.Hist
		}
		return map[string]interface{}{"desc": desc, "seed": rec.Seed(), "steps": steps, "client_histories": h}
	}
	leaderOf := func() *sim.Node {
		var l *sim.Node
		cl.WaitFor(15*time.Second, func() bool {
			for _, n := range cl.Nodes {
				if n.Dead() {
					continue
				}
				if g := n.PartitionRaft(dsId, pid); g != nil {
					st := g.VerifStatus()
					if st.Lead == n.Id && st.RaftState.String() == "StateLeader" {
						l = n
						return true
					}
				}
			}
			return false
		})
		return l
	}
	via := func(n *sim.Node) cw.Target {
		return func() *storage.Dataset {
			if n.Dead() || n.In == nil {
				return nil
			}
			return n.Dataset(dsId)
		}
	}
	A := leaderOf()
	if A == nil {
		rec.Inconclusive(desc + ": the partition group has no leader")
		return
	}
	var B, C *sim.Node
	for _, i := range rng.Perm(3) {
		n := cl.Nodes[i]
		if n == A {
			continue
		}
		if B == nil {
			B = n
		} else {
			C = n
		}
	}
	note(fmt.Sprintf("leader n%d, second replica n%d, lagging replica n%d", A.Id, B.Id, C.Id))
	// some acknowledged history with everybody healthy
	for i := 0; i < 6; i++ {
		wl.Step(rng, wl.Clients[i%4], via(A), 3*time.Second, nil)
	}
	// the third replica lags from here on: appends that carry entries do not reach it
	cl.Net.SetFilter(func(from, to uint64, group uuid.UUID, m *raftpb.Message) bool {
		return to == C.Id && uuid.Equal(group, pid) && m.Type == raftpb.MsgApp && len(m.Entries) > 0
	})
	var crashed int32
	cl.OnCrash = func(n *sim.Node, cp *sim.CrashPoint) { atomic.StoreInt32(&crashed, 1); note("n" + fmt.Sprint(n.Id) + " crashed at " + cp.Hit) }
	cl.ArmCrash(B.Idx, 1, side)
	// the write whose fate is in question; the caller gives up before the proposal's own timeout
	wl.Step(rng, wl.Clients[0], via(A), 1500*time.Millisecond, nil)
	wl.Step(rng, wl.Clients[1], via(A), 1500*time.Millisecond, nil)
	cl.Disarm()
	if atomic.LoadInt32(&crashed) == 0 {
		rec.Count("quorum_crash_point_not_reached", 1)
		cl.Crash(B.Idx)
	} else {
		rec.Count("quorum_second_replica_crashed_at_the_write", 1)
	}
	if err := cl.Restart(B.Idx); err != nil {
		rec.Violation("quorum:restart-failed", desc+": "+err.Error(), replay())
		return
	}
	note(fmt.Sprintf("n%d restarted", B.Id))
	if rng.Intn(2) == 0 {
		time.Sleep(time.Duration(rng.Intn(30)) * time.Millisecond)
	}
	// now the leader goes
	cl.Crash(A.Idx)
	cl.Teardown(A.Idx)
	note(fmt.Sprintf("leader n%d crashed", A.Id))
	cl.Net.SetFilter(nil)
	L := leaderOf()
	if L == nil {
		rec.Inconclusive(desc + ": the two remaining replicas did not elect a leader within the watchdog")
		return
	}
	note(fmt.Sprintf("n%d leads the two remaining replicas", L.Id))
	for i := 2; i < 4; i++ {
		wl.Step(rng, wl.Clients[i], via(L), 3*time.Second, nil)
	}
	// The new leader has applied writes of its own term, so it has applied everything committed before: every
	// acknowledged write must be in its partition now.
	checkNode := func(n *sim.Node, when string) bool {
		var idx *index.Hnsw
		if !cl.Guard(5*time.Second, func() { idx = n.PartitionIndex(dsId, pid) }) || idx == nil {
			rec.Inconclusive(fmt.Sprintf("%s: node %d: partition index not readable", desc, n.Id))
			return false
		}
		found := map[int]cw.State{}
		var foreign []string
		cw.Collect(idx.VerifDump(), wl.Known(), found, &foreign)
		if sym, detail := wl.Check(found, foreign); sym != "" {
			rec.Violation("quorum:"+sym+":second-replica-crash-"+side, fmt.Sprintf("%s: node %d %s: %s | steps %v", desc, n.Id, when, detail, steps), replay())
			return false
		}
		rec.Count("recovered_states_checked", 1)
		return true
	}
	if wl.Clients[2].Open == nil && wl.Clients[3].Open == nil {
		cl.WaitFor(5*time.Second, func() bool {
			g := L.PartitionRaft(dsId, pid)
			if g == nil {
				return false
			}
			st := g.VerifStatus()
			return st.Applied == st.Commit
		})
		if !checkNode(L, "(leader of the two remaining replicas, after writes of its own term were acknowledged)") {
			return
		}
	}
	if err := cl.Restart(A.Idx); err != nil {
		rec.Violation("quorum:restart-failed", desc+": "+err.Error(), replay())
		return
	}
	note(fmt.Sprintf("n%d restarted", A.Id))
	if f := cl.Fatals(); len(f) > 0 {
		rec.Violation("quorum:fatal", fmt.Sprintf("%s: %+v", desc, f[0]), replay())
		return
	}
	level := func() bool {
		var a []uint64
		for _, n := range cl.Nodes {
			g := n.PartitionRaft(dsId, pid)
			if g == nil {
				return false
			}
			st := g.VerifStatus()
			if st.Lead == 0 || st.Applied != st.Commit {
				return false
			}
			a = append(a, st.Applied)
		}
		return a[0] == a[1] && a[1] == a[2]
	}
	if cl.WaitFor(30*time.Second, level) != nil {
		if cl.WaitFor(30*time.Second, level) != nil {
			rec.Inconclusive(desc + ": the three replicas did not become level within a minute")
			return
		}
	}
	for _, n := range cl.Nodes {
		if !checkNode(n, "after all three replicas are level") {
			return
		}
	}
	rec.Count("quorum_of_two_histories", 1)
	rec.Case(mon.Digest(desc), true)
}
