// C02 — a partition is a faithful map id -> (vector, metadata) with exact errors.
package c02

import (
	"fmt"
	"math"
	"testing"

	"github.com/marekgalovic/anndb/index"
	pb "github.com/marekgalovic/anndb/protobuf"
	"github.com/marekgalovic/anndb/storage"
	uuid "github.com/satori/go.uuid"
	"verif/harness/hx"
	"verif/harness/mon"
	"verif/harness/smx"
)

func TestC02(t *testing.T) {
	rec := mon.Open("C02")
	defer rec.Finish(t)
	n := rec.N(12000, 200000)
	for c := 0; c < n; c++ {
		if rec.Mine(c) {
			runLog(rec, c)
		}
	}
}

// perItemBound is the closed-form upper bound of BytesSize()'s per-item link
// estimate: level-0 budget plus the geometric tail over the upper levels.
func perItemBound(cfg index.VerifConfig) float64 {
	const edge, mutex = 12.0, 24.0
	b := float64(cfg.MMax0)*edge + mutex
	q := math.Exp(-1 / float64(cfg.LevelMultiplier))
	if q < 1 {
		b += (float64(cfg.MMax)*edge + mutex) * q / (1 - q)
	}
	return b
}

func kindOf(c *pb.PartitionChange) string {
	return []string{"insert", "update", "delete", "batch-insert", "batch-update", "batch-delete"}[int(c.Type)]
}

func runLog(rec *mon.Recorder, c int) {
	rng := rec.Rand("c02", c)
	metric := 1 + rng.Intn(3)
	dim := 1 + rng.Intn(6)
	if metric == 3 && dim == 1 {
		dim = 2
	}
	g := &smx.Gen{Rng: rng, Dim: dim, Universe: 4 + rng.Intn(9), Metric: metric, LongMeta: c%8 == 3, ZeroId: c%4 == 2}
	sm := storage.VerifNewPartitionSM(uint32(dim), smx.SpaceOf(metric))
	model := smx.NewModel()
	var descs []string
	n := 10 + rng.Intn(31)
	failedOps, okOps := 0, 0
	var violated bool
	fail := func(sym, kind, detail string) {
		violated = true
		rec.Violation(fmt.Sprintf("%s:%s", sym, kind), detail,
			map[string]interface{}{"case": c, "seed": rec.Seed(), "dim": dim, "metric": metric, "log": descs})
	}
	for i := 0; i < n && !violated; i++ {
		e := g.Next()
		descs = append(descs, e.Desc)
		kind := kindOf(e.Change)
		before := sm.Index().VerifDump()
		// Metadata that the snapshot format cannot express (a key over 255 bytes, a value over 65535): the partition may
		// hold it like anything else, or refuse the operation with an error - then the operation changed nothing.
		refusable := (kind == "insert" || kind == "update") && smx.OverLong(e.Change.GetMetadata())
		if refusable {
			rec.Count("single_ops_with_overlong_metadata", 1)
			var got interface{}
			var delivered bool
			var err error
			func() {
				defer func() {
					if p := recover(); p != nil {
						err = fmt.Errorf("panic: %v", p)
					}
				}()
				got, delivered, err = sm.Apply(e.Bytes)
			}()
			if err != nil {
				fail("apply-error", kind, fmt.Sprintf("entry %d (%s): %v", i, e.Desc, err))
				break
			}
			if ge, isErr := got.(error); delivered && isErr && ge != index.ItemNotFoundError && ge != index.ItemAlreadyExistsError {
				if d := hx.DumpDiff(before, sm.Index().VerifDump()); d != "" {
					fail("refused-op-changed-state", kind, fmt.Sprintf("entry %d (%s) was refused with %q but: %s", i, e.Desc, ge, d))
					break
				}
				rec.Count("single_ops_with_overlong_metadata_refused", 1)
				continue
			}
			want := model.Apply(e.Decode())
			if d := smx.CompareOutcome(want, e.Change, got, delivered); d != "" {
				fail("wrong-outcome", kind, fmt.Sprintf("entry %d (%s): %s", i, e.Desc, d))
				break
			}
			if d := hx.ContentDiff(sm.Index().VerifDump(), model.Items); d != "" {
				fail("contents", kind, fmt.Sprintf("after entry %d (%s): %s", i, e.Desc, d))
				break
			}
			if want.Err != nil {
				failedOps++
			} else {
				okOps++
			}
			continue
		}
		want := model.Apply(e.Decode())
		var got interface{}
		var delivered bool
		var err error
		func() {
			defer func() {
				if p := recover(); p != nil {
					err = fmt.Errorf("panic: %v", p)
				}
			}()
			got, delivered, err = sm.Apply(e.Bytes)
		}()
		if err != nil {
			sym := "apply-error"
			if len(err.Error()) > 6 && err.Error()[:6] == "panic:" {
				sym = "apply-panic"
			}
			fail(sym, kind, fmt.Sprintf("entry %d (%s): %v", i, e.Desc, err))
			break
		}
		if d := smx.CompareOutcome(want, e.Change, got, delivered); d != "" {
			fail("wrong-outcome", kind, fmt.Sprintf("entry %d (%s): %s", i, e.Desc, d))
			break
		}
		idx := sm.Index()
		after := idx.VerifDump()
		if d := hx.ContentDiff(after, model.Items); d != "" {
			fail("contents", kind, fmt.Sprintf("after entry %d (%s): %s", i, e.Desc, d))
			break
		}
		// a single-form operation that failed must have changed nothing at all
		if !want.Batch && want.Err != nil {
			failedOps++
			if d := hx.DumpDiff(before, after); d != "" {
				fail("failed-op-changed-state", kind, fmt.Sprintf("entry %d (%s) failed with %v but: %s", i, e.Desc, want.Err, d))
				break
			}
		} else {
			okOps++
		}
		// Get / Len / byte counters
		for j := 0; j < g.Universe; j++ {
			id := g.IdOf(j)
			v, gerr := idx.Get(id)
			it, ok := model.Items[id]
			if ok != (gerr == nil) || (!ok && gerr != index.ItemNotFoundError) || (ok && !hx.VecEqual(v, it.Vec)) {
				fail("get", kind, fmt.Sprintf("after entry %d: Get(%d) = %v,%v; model present=%v", i, j, v, gerr, ok))
				break
			}
		}
		if violated {
			break
		}
		if idx.Len() != len(model.Items) {
			fail("len", kind, fmt.Sprintf("after entry %d (%s): Len()=%d, %d live ids", i, e.Desc, idx.Len(), len(model.Items)))
			break
		}
		raw := hx.RawBytes(model.Items)
		if after.RawBytesSize != raw {
			fail("byte-counter", kind, fmt.Sprintf("after entry %d (%s): raw byte counter %d want %d", i, e.Desc, after.RawBytesSize, raw))
			break
		}
		bs := idx.BytesSize()
		hi := float64(raw) + float64(len(model.Items))*perItemBound(after.Config) + 1
		if bs < raw || float64(bs) > hi || bs >= 1<<63 {
			fail("bytes-size-range", kind, fmt.Sprintf("after entry %d: BytesSize()=%d outside [%d, %.0f]", i, bs, raw, hi))
			break
		}
	}
	rec.Count("entries_applied", int64(len(descs)))
	rec.Count("failed_single_ops_checked", int64(failedOps))
	rec.Case(mon.Digest(dim, metric, descs), failedOps >= 1 && okOps >= 3)
	if rec.WantSample() && len(descs) <= 14 {
		rec.Sample(map[string]interface{}{"case": c, "dim": dim, "metric": metric, "log": descs})
	}
	_ = uuid.Nil
}
