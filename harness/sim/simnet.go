package sim

import (
	"context"
	"math/rand"
	"sync"
	"sync/atomic"
	"time"

	"github.com/coreos/etcd/raft/raftpb"
	"github.com/golang/protobuf/proto"
	pb "github.com/marekgalovic/anndb/protobuf"
	uuid "github.com/satori/go.uuid"
	"google.golang.org/grpc"
)

// MsgInfo is a raft message as it leaves a replica.
type MsgInfo struct {
	raftpb.Message
	Group uuid.UUID
}

// Policy is the fault policy of SimNet; all random choices come from the
// cluster seed.
type Policy struct {
	Drop     float64       // probability a message is lost
	Fail     float64       // probability a send fails with an error (the message is not delivered; the sender is told)
	Dup      float64       // probability a message is delivered twice
	DelayMax time.Duration // uniform extra delay (reorders)
	Blocked  map[[2]uint64]bool
	// Filter, when set, is asked for every message that leaves; true = the message is lost on the way.
	Filter func(from, to uint64, group uuid.UUID, m *raftpb.Message) bool
}

type SimNet struct {
	c      *Cluster
	mu     sync.Mutex
	rng    *rand.Rand
	policy Policy
	closed int32

	Sent, Delivered, Dropped, Duplicated int64
}

func newSimNet(c *Cluster, seed int64) *SimNet {
	return &SimNet{c: c, rng: rand.New(rand.NewSource(seed ^ 0x5151)), policy: Policy{Blocked: map[[2]uint64]bool{}}}
}

func (s *SimNet) Close() { atomic.StoreInt32(&s.closed, 1) }

func (s *SimNet) SetPolicy(p Policy) {
	s.mu.Lock()
	if p.Blocked == nil {
		p.Blocked = map[[2]uint64]bool{}
	}
	s.policy = p
	s.mu.Unlock()
}

// Partition blocks all links between the two sides (both directions unless oneWay).
func (s *SimNet) Partition(a, b []uint64, oneWay bool) {
	s.mu.Lock()
	for _, x := range a {
		for _, y := range b {
			s.policy.Blocked[[2]uint64{x, y}] = true
			if !oneWay {
				s.policy.Blocked[[2]uint64{y, x}] = true
			}
		}
	}
	s.mu.Unlock()
}

func (s *SimNet) Heal() {
	s.mu.Lock()
	s.policy.Blocked = map[[2]uint64]bool{}
	s.mu.Unlock()
}

// SetFilter installs (or clears, with nil) the message filter of the current policy.
func (s *SimNet) SetFilter(f func(from, to uint64, group uuid.UUID, m *raftpb.Message) bool) {
	s.mu.Lock()
	s.policy.Filter = f
	s.mu.Unlock()
}

type simClient struct {
	net      *SimNet
	from, to uint64
}

func (c *simClient) Receive(ctx context.Context, req *pb.RaftMessage, opts ...grpc.CallOption) (*pb.EmptyMessage, error) {
	return c.net.send(c.from, c.to, req)
}

func (s *SimNet) send(from, to uint64, req *pb.RaftMessage) (*pb.EmptyMessage, error) {
	if atomic.LoadInt32(&s.closed) == 1 {
		return nil, ErrNodeDown
	}
	src := s.c.node(from)
	if src == nil || src.Dead() {
		return nil, ErrNodeDown
	}
	group := uuid.FromBytesOrNil(req.GetGroupId())
	var m raftpb.Message
	if err := proto.Unmarshal(req.GetMessage(), &m); err != nil {
		return nil, err
	}
	atomic.AddInt64(&s.Sent, 1)
	// the monitors see the message on the sender's goroutine, at the instant
	// it leaves, together with the sender's durable view
	if f := s.c.OnSend; f != nil {
		var d *Durable
		if w := s.c.WAL(src, group); w != nil {
			d = w.View()
		}
		f(src, to, group, &MsgInfo{Message: m, Group: group}, d)
	}
	s.mu.Lock()
	p := s.policy
	blocked := p.Blocked[[2]uint64{from, to}]
	drop := blocked || s.rng.Float64() < p.Drop
	if !drop && p.Filter != nil && p.Filter(from, to, group, &m) {
		drop = true
	}
	// A forwarded proposal travels in exactly one unary RPC: the transport can
	// lose or delay it, never deliver it twice (raft re-sends its own protocol
	// messages, so those may arrive twice; a proposal delivered twice would be
	// applied twice, which no property excludes and no deployment can produce)
	dup := !drop && m.Type != raftpb.MsgProp && s.rng.Float64() < p.Dup
	var d1, d2 time.Duration
	if p.DelayMax > 0 {
		d1 = time.Duration(s.rng.Int63n(int64(p.DelayMax)))
		d2 = time.Duration(s.rng.Int63n(int64(p.DelayMax)))
	}
	if !drop && p.Fail > 0 && m.Type != raftpb.MsgProp && s.rng.Float64() < p.Fail {
		drop, blocked = true, true // the send fails and the sender is told (a reset connection, a refused stream)
	}
	s.mu.Unlock()
	if drop {
		atomic.AddInt64(&s.Dropped, 1)
		if blocked {
			return nil, ErrNodeDown // a partitioned link looks unreachable
		}
		return &pb.EmptyMessage{}, nil // silently lost
	}
	cp := &pb.RaftMessage{GroupId: append([]byte(nil), req.GroupId...), Message: append([]byte(nil), req.Message...)}
	go s.deliver(to, cp, d1)
	if dup {
		atomic.AddInt64(&s.Duplicated, 1)
		go s.deliver(to, cp, d2+time.Millisecond)
	}
	return &pb.EmptyMessage{}, nil
}

func (s *SimNet) deliver(to uint64, req *pb.RaftMessage, delay time.Duration) {
	if delay > 0 {
		time.Sleep(delay)
	}
	if atomic.LoadInt32(&s.closed) == 1 {
		return
	}
	dst := s.c.node(to)
	if dst == nil || dst.Dead() {
		return
	}
	in := dst.In
	if in == nil || in.ZeroGroup == nil {
		return
	}
	defer func() { recover() }()
	ctx, cancel := context.WithTimeout(context.Background(), 2*time.Second)
	defer cancel()
	if _, err := in.ZeroGroup.VerifTransport().Receive(ctx, req); err == nil {
		atomic.AddInt64(&s.Delivered, 1)
	}
}
