package sim

import (
	"fmt"
	"hash/fnv"
	"runtime"
	"sync"
	"sync/atomic"
	"time"

	etcdRaft "github.com/coreos/etcd/raft"
	"github.com/coreos/etcd/raft/raftpb"
	"github.com/marekgalovic/anndb/storage/wal"
	uuid "github.com/satori/go.uuid"
)

// Durable is what a group's log store has made durable, as seen by the wrapper:
// it is updated only after the wrapped call returned.
type Durable struct {
	Term, Vote, Commit  uint64
	First, Last         uint64
	Terms               map[uint64]uint64 // index -> term, First-1 (dummy) .. Last
	SnapIndex, SnapTerm uint64
}

func (d *Durable) clone() *Durable {
	c := *d
	c.Terms = make(map[uint64]uint64, len(d.Terms))
	for k, v := range d.Terms {
		c.Terms[k] = v
	}
	return &c
}

type CrashPoint struct {
	Node  uint64
	K     int    // the K-th durable write (Save with content / CreateSnapshot) on that node, counted over all groups
	Side  string // "before" | "after"
	Kind  string // "" = writes of all groups count; "zero" | "partition" = only those
	fired int32
	Hit   string // what it was: "<zero|partition>/<Save|CreateSnapshot>/#<per-group ordinal>/<side>"
}

type RecWAL struct {
	inner wal.WAL
	c     *Cluster
	n     *Node
	Group uuid.UUID

	mu     sync.Mutex
	d      Durable
	writes int // durable writes through this wrapper
	// SaveViolations collects monotonicity problems seen at Save (M4)
	Problems []string
}

func entryDigest(e *raftpb.Entry) uint64 {
	h := fnv.New64a()
	fmt.Fprintf(h, "%d|%d|", e.Type, e.Term)
	h.Write(e.Data)
	return h.Sum64()
}

func newRecWAL(c *Cluster, n *Node, group uuid.UUID, inner wal.WAL) *RecWAL {
	w := &RecWAL{inner: inner, c: c, n: n, Group: group}
	w.d.Terms = map[uint64]uint64{}
	w.reload()
	return w
}

// reload initialises the durable view from the store itself (open / restart).
func (w *RecWAL) reload() {
	hs, _, err := w.inner.InitialState()
	if err == nil {
		w.d.Term, w.d.Vote, w.d.Commit = hs.Term, hs.Vote, hs.Commit
	}
	if snap, err := w.inner.Snapshot(); err == nil {
		w.d.SnapIndex, w.d.SnapTerm = snap.Metadata.Index, snap.Metadata.Term
	}
	first, err1 := w.inner.FirstIndex()
	last, err2 := w.inner.LastIndex()
	if err1 != nil || err2 != nil {
		return
	}
	w.d.First, w.d.Last = first, last
	w.d.Terms = map[uint64]uint64{}
	if first > 0 {
		if t, err := w.inner.Term(first - 1); err == nil {
			w.d.Terms[first-1] = t
		}
	}
	if last >= first {
		if ents, err := w.inner.Entries(first, last+1, ^uint64(0)); err == nil {
			for _, e := range ents {
				w.d.Terms[e.Index] = e.Term
			}
		}
	}
}

// View returns a copy of the durable view.
func (w *RecWAL) View() *Durable {
	w.mu.Lock()
	defer w.mu.Unlock()
	return w.d.clone()
}

func (w *RecWAL) Writes() int {
	w.mu.Lock()
	defer w.mu.Unlock()
	return w.writes
}

func (w *RecWAL) kind() string {
	if uuid.Equal(w.Group, uuid.Nil) {
		return "zero"
	}
	return "partition"
}

// boundary is called before and after every durable write. It fires the armed
// crash point, if it is this node's turn.
func (w *RecWAL) boundary(call, side string, ordinal int) {
	if w.n.Dead() {
		runtime.Goexit()
	}
	cp := w.c.armed()
	if cp == nil || cp.Node != w.n.Id || cp.Side != side {
		return
	}
	if cp.Kind != "" && cp.Kind != w.kind() {
		return
	}
	var k int
	if side == "before" {
		k = int(atomic.AddInt64(&w.n.writesBefore, 1))
	} else {
		k = int(atomic.AddInt64(&w.n.writesAfter, 1))
	}
	if k != cp.K || !atomic.CompareAndSwapInt32(&cp.fired, 0, 1) {
		return
	}
	cp.Hit = fmt.Sprintf("%s/%s/#%d/%s", w.kind(), call, ordinal, side)
	// The process dies here. Whatever it sent before reaching this write (an
	// acknowledgement, a raft message) has left it: give those a moment to land
	// at their receivers before the node is marked dead, as they would with a
	// disk write that takes its time - clients count a reply that races with
	// the crash flag as "outcome unknown".
	time.Sleep(15 * time.Millisecond)
	atomic.StoreInt32(&w.n.dead, 1)
	if f := w.c.OnCrash; f != nil {
		f(w.n, cp)
	}
	runtime.Goexit()
}

func (w *RecWAL) count(side string) {
	// keep the per-node counters moving even when no crash is armed (pilot run)
	if cp := w.c.armed(); cp == nil || cp.Node != w.n.Id || cp.Side != side {
		if side == "before" {
			atomic.AddInt64(&w.n.writesBefore, 1)
		} else {
			atomic.AddInt64(&w.n.writesAfter, 1)
		}
	}
}

func (w *RecWAL) Save(hs raftpb.HardState, ents []raftpb.Entry, snap raftpb.Snapshot) error {
	if f := w.c.SaveDelay; f != nil && !w.n.Dead() {
		if d := f(w.n, w.Group); d > 0 {
			time.Sleep(d)
		}
	}
	content := !etcdRaft.IsEmptyHardState(hs) || len(ents) > 0 || !etcdRaft.IsEmptySnap(snap)
	call := "Save"
	if !etcdRaft.IsEmptySnap(snap) {
		call = "SaveSnapshot"
	}
	ord := 0
	if content {
		w.mu.Lock()
		w.writes++
		ord = w.writes
		// M4: nothing durable may be rewritten below the durable commit index with
		// another term; hard state term and commit never decrease
		if !etcdRaft.IsEmptyHardState(hs) {
			if hs.Term < w.d.Term {
				w.Problems = append(w.Problems, fmt.Sprintf("hard state term goes back: %d -> %d", w.d.Term, hs.Term))
			}
			if hs.Commit < w.d.Commit {
				w.Problems = append(w.Problems, fmt.Sprintf("hard state commit goes back: %d -> %d", w.d.Commit, hs.Commit))
			}
		}
		for _, e := range ents {
			if t, ok := w.d.Terms[e.Index]; ok && e.Index <= w.d.Commit && t != e.Term && e.Index >= w.d.First {
				w.Problems = append(w.Problems, fmt.Sprintf("entry %d at or below the durable commit index %d rewritten: term %d -> %d", e.Index, w.d.Commit, t, e.Term))
			}
		}
		w.mu.Unlock()
		w.count("before")
		w.boundary(call, "before", ord)
	} else if w.n.Dead() {
		runtime.Goexit()
	}
	err := w.inner.Save(hs, ents, snap)
	if err != nil {
		return err
	}
	if content {
		w.mu.Lock()
		if !etcdRaft.IsEmptySnap(snap) {
			w.d.SnapIndex, w.d.SnapTerm = snap.Metadata.Index, snap.Metadata.Term
			w.d.Terms = map[uint64]uint64{snap.Metadata.Index: snap.Metadata.Term}
			w.d.First, w.d.Last = snap.Metadata.Index+1, snap.Metadata.Index
		}
		for _, e := range ents {
			if e.Index < w.d.First {
				continue
			}
			w.d.Terms[e.Index] = e.Term
			if e.Index <= w.d.Last {
				for i := e.Index + 1; i <= w.d.Last; i++ {
					delete(w.d.Terms, i)
				}
			}
			w.d.Last = e.Index
		}
		if !etcdRaft.IsEmptyHardState(hs) {
			w.d.Term, w.d.Vote, w.d.Commit = hs.Term, hs.Vote, hs.Commit
		}
		w.mu.Unlock()
		if f := w.c.OnSave; f != nil {
			f(w.n, w.Group, w, call)
		}
		w.count("after")
		w.boundary(call, "after", ord)
	}
	return nil
}

func (w *RecWAL) CreateSnapshot(idx uint64, cs *raftpb.ConfState, data []byte) (raftpb.Snapshot, error) {
	w.mu.Lock()
	w.writes++
	ord := w.writes
	w.mu.Unlock()
	w.count("before")
	w.boundary("CreateSnapshot", "before", ord)
	s, err := w.inner.CreateSnapshot(idx, cs, data)
	if err == nil {
		w.mu.Lock()
		w.d.SnapIndex, w.d.SnapTerm = s.Metadata.Index, s.Metadata.Term
		for i := range w.d.Terms {
			if i < idx {
				delete(w.d.Terms, i)
			}
		}
		w.d.First = idx + 1
		w.mu.Unlock()
		if f := w.c.OnSave; f != nil {
			f(w.n, w.Group, w, "CreateSnapshot")
		}
	}
	w.count("after")
	w.boundary("CreateSnapshot", "after", ord)
	return s, err
}

func (w *RecWAL) DeleteGroup() error {
	err := w.inner.DeleteGroup()
	w.mu.Lock()
	w.d = Durable{Terms: map[uint64]uint64{}}
	w.mu.Unlock()
	return err
}

func (w *RecWAL) InitialState() (raftpb.HardState, raftpb.ConfState, error) {
	return w.inner.InitialState()
}
func (w *RecWAL) Entries(lo, hi, max uint64) ([]raftpb.Entry, error) {
	return w.inner.Entries(lo, hi, max)
}
func (w *RecWAL) Term(i uint64) (uint64, error)      { return w.inner.Term(i) }
func (w *RecWAL) LastIndex() (uint64, error)         { return w.inner.LastIndex() }
func (w *RecWAL) FirstIndex() (uint64, error)        { return w.inner.FirstIndex() }
func (w *RecWAL) Snapshot() (raftpb.Snapshot, error) { return w.inner.Snapshot() }
func (w *RecWAL) Inner() wal.WAL                     { return w.inner }

// ---- crash arming (cluster level) -------------------------------------------

func (c *Cluster) armed() *CrashPoint {
	c.mu.Lock()
	defer c.mu.Unlock()
	return c.crash
}

// ArmCrash arms a crash of node i at its K-th durable write (1-based, counted
// from now, over all its groups), immediately before or after the write.
func (c *Cluster) ArmCrash(i int, k int, side string) *CrashPoint {
	n := c.Nodes[i]
	atomic.StoreInt64(&n.writesBefore, 0)
	atomic.StoreInt64(&n.writesAfter, 0)
	cp := &CrashPoint{Node: n.Id, K: k, Side: side}
	c.mu.Lock()
	c.crash = cp
	c.mu.Unlock()
	return cp
}

// ArmCrashKind is ArmCrash counting only the durable writes of one kind of group ("zero" | "partition").
func (c *Cluster) ArmCrashKind(i int, kind string, k int, side string) *CrashPoint {
	cp := c.ArmCrash(i, k, side)
	c.mu.Lock()
	cp.Kind = kind
	c.mu.Unlock()
	return cp
}

func (c *Cluster) Disarm() {
	c.mu.Lock()
	c.crash = nil
	c.mu.Unlock()
}

// DurableWrites returns how many durable writes node i performed since the
// counters were last reset (ArmCrash / ResetWriteCount).
func (c *Cluster) DurableWrites(i int) int {
	return int(atomic.LoadInt64(&c.Nodes[i].writesAfter))
}

func (c *Cluster) ResetWriteCount(i int) {
	atomic.StoreInt64(&c.Nodes[i].writesBefore, 0)
	atomic.StoreInt64(&c.Nodes[i].writesAfter, 0)
}
