// Package sim is the in-process cluster rig: N real anndb.Server objects (real
// setup() wiring, real Badger directory each, real gRPC between nodes for the
// data plane) with three instruments attached through the `verif` hooks:
//
//	SimNet   every raft message goes through an injected RaftTransportClient that
//	         records it, lets the monitors judge it against the sender's durable
//	         view, and delivers it under a seeded fault policy;
//	RecWAL   wraps every group's log store, keeps the durable view, counts the
//	         durable-write boundaries and arms crashes at them;
//	gRPC     server interceptors per node inject delay / error / node-down and
//	         record what each node was asked.
//
// Raft time can be accelerated: the harness sends ticks to every live group.
package sim

import (
	"context"
	"errors"
	"fmt"
	"google.golang.org/grpc/codes"
	"google.golang.org/grpc/status"
	"io"
	"net"
	"os"
	"path/filepath"
	"runtime"
	"strings"
	"sync"
	"sync/atomic"
	"time"

	"github.com/marekgalovic/anndb"
	"github.com/marekgalovic/anndb/cluster"
	"github.com/marekgalovic/anndb/index"
	pb "github.com/marekgalovic/anndb/protobuf"
	"github.com/marekgalovic/anndb/storage"
	"github.com/marekgalovic/anndb/storage/raft"
	"github.com/marekgalovic/anndb/storage/wal"

	uuid "github.com/satori/go.uuid"
	"github.com/sirupsen/logrus"
	"google.golang.org/grpc"
	"verif/harness/ports"
)

type Options struct {
	Nodes         int
	Dir           string        // scratch directory (one sub-directory per node)
	TickEvery     time.Duration // 0: only the real 100 ms ticker
	SimNet        bool          // route raft messages through SimNet
	Seed          int64
	Solo          bool // every node is its own 1-node cluster (no join)
	NoJoinBarrier bool // do not wait for a join to be applied before the next node joins
}

type Node struct {
	Idx         int
	Id          uint64
	Port        string
	Addr        string
	Dir         string
	Srv         *anndb.Server
	In          *anndb.VerifInternals
	c           *Cluster
	dead        int32
	Incarnation int
	NoRejoin    bool   // next starts use `-join false`
	JoinVia     string // next starts join through this address instead of node 1's

	// OnStreamDone, when set before traffic starts, is called after a streaming handler of this node returned
	// (method short name, first request message, handler error).
	OnStreamDone func(method string, req interface{}, err error)
	rpcMu        sync.Mutex
	rpcFaults    map[string]RPCFault // gRPC full method -> fault ("*" = every method)
	rpcLog       []RPCRecord

	runMu    sync.Mutex
	runLoops map[uuid.UUID]int // group -> live run loops of the current incarnation

	writesBefore, writesAfter int64 // durable-write boundaries passed (all groups)
}

type RPCFault struct {
	Delay time.Duration
	Err   error
	Hang  bool // block until the caller gives up
	// Gate, when set, is called with the request before Err is returned (after Delay): it may
	// block, e.g. until another node has finished answering the same query.
	Gate func(ctx context.Context, req interface{})
	// CutAfter > 0 (server-streaming methods): the answer stream breaks after that many messages have been sent -
	// the caller receives them and then an Unavailable error, as when the connection is lost in the middle
	CutAfter int
	// CutOnce: the fault is spent once it has cut one stream (the next call on the method goes through)
	CutOnce bool
	// Decide, when set, is asked for every call of the method (after Delay and Gate): a non-nil error fails that
	// call only; it may block on ctx (a call that is held until its caller gives up)
	Decide func(ctx context.Context, req interface{}) error
}

type RPCRecord struct {
	Method string
	Req    interface{}
	At     time.Time
}

type Fatal struct {
	Node    string
	Group   string
	Message string
}

type Cluster struct {
	Opt   Options
	Nodes []*Node
	Net   *SimNet

	mu        sync.Mutex
	ticks     map[string]chan struct{} // node/group/incarnation -> tick channel
	snaps     map[string]chan uint64
	wals      map[string]*RecWAL
	fatals    []Fatal
	stopC     chan struct{}
	TickCount int64
	Blocked   int64 // guarded calls into a server that did not return in time
	crash     *CrashPoint
	OnCrash   func(n *Node, cp *CrashPoint)

	// optional observers (set before Start)
	OnEvent func(n *Node, group uuid.UUID, point string, args ...interface{})
	OnSend  func(from *Node, to uint64, group uuid.UUID, m *MsgInfo, durable *Durable)
	OnSave  func(n *Node, group uuid.UUID, w *RecWAL, kind string)
	// SaveDelay, when set, is asked at the entry of every durable write of a wrapped log store how long that
	// write takes to reach the disk (a slow disk; the call sleeps that long before anything else happens).
	SaveDelay func(n *Node, group uuid.UUID) time.Duration
	OnPoint   func(point string, args ...interface{})
	Rewraps   []string // log stores wrapped a second time for the same (node, group, incarnation)
}

var (
	current   *Cluster
	currentMu sync.RWMutex
	hooksOnce sync.Once
)

func cur() *Cluster {
	currentMu.RLock()
	defer currentMu.RUnlock()
	return current
}

func (c *Cluster) node(id uint64) *Node {
	for _, n := range c.Nodes {
		if n.Id == id {
			return n
		}
	}
	return nil
}

func (n *Node) Dead() bool { return atomic.LoadInt32(&n.dead) == 1 }

func key(node uint64, group uuid.UUID, inc int) string {
	return fmt.Sprintf("%d/%s/%d", node, group.String(), inc)
}

type fatalHook struct{}

func (fatalHook) Levels() []logrus.Level { return []logrus.Level{logrus.FatalLevel, logrus.PanicLevel} }
func (fatalHook) Fire(e *logrus.Entry) error {
	// log output is discarded in the rig; what ends a replica (or, for a panic
	// inside the raft library's own goroutine, the whole process) must be visible
	fmt.Fprintf(os.Stderr, "FATAL-EXIT level=%s msg=%q node=%v group=%v\n", e.Level, e.Message, e.Data["node_id"], e.Data["group_id"])
	if c := cur(); c != nil {
		f := Fatal{Message: e.Message}
		if v, ok := e.Data["node_id"]; ok {
			f.Node = strings.TrimSpace(fmt.Sprint(v))
		}
		if v, ok := e.Data["group_id"]; ok {
			f.Group = fmt.Sprint(v)
		}
		c.mu.Lock()
		c.fatals = append(c.fatals, f)
		c.mu.Unlock()
	}
	return nil
}

func installHooks() {
	hooksOnce.Do(func() {
		if os.Getenv("VERIF_SIM_LOG") != "" {
			logrus.SetLevel(logrus.InfoLevel)
		} else {
			logrus.SetOutput(io.Discard)
			logrus.SetLevel(logrus.ErrorLevel)
		}
		logrus.AddHook(fatalHook{})
		// log.Fatal inside a ready-loop ends that replica only, as a process
		// exit would in production; the fatal hook has recorded the reason.
		logrus.StandardLogger().ExitFunc = func(int) { runtime.Goexit() }

		raft.VerifHooks.WrapWAL = func(nodeId uint64, groupId uuid.UUID, w wal.WAL) wal.WAL {
			c := cur()
			if c == nil {
				return w
			}
			n := c.node(nodeId)
			if n == nil {
				return w
			}
			c.mu.Lock()
			if old := c.wals[key(nodeId, groupId, n.Incarnation)]; old != nil {
				// a second raft group object for the same group in one incarnation (a replica unloaded and
				// loaded again, or a load that was refused because the group is already running)
				c.Rewraps = append(c.Rewraps, fmt.Sprintf("node %d group %s incarnation %d", nodeId, groupId, n.Incarnation))
				if old.Inner() == w {
					// the same log store object: one store, one recorder (its view follows every write and
					// DeleteGroup made through it)
					c.mu.Unlock()
					return old
				}
			}
			c.mu.Unlock()
			rw := newRecWAL(c, n, groupId, w)
			c.mu.Lock()
			c.wals[key(nodeId, groupId, n.Incarnation)] = rw
			c.mu.Unlock()
			return rw
		}
		raft.VerifHooks.TransportClient = func(self, peer uint64) pb.RaftTransportClient {
			c := cur()
			if c == nil || c.Net == nil {
				return nil
			}
			return &simClient{net: c.Net, from: self, to: peer}
		}
		raft.VerifHooks.Event = func(nodeId uint64, groupId uuid.UUID, point string, args ...interface{}) {
			c := cur()
			if c == nil {
				return
			}
			n := c.node(nodeId)
			if n == nil {
				return
			}
			switch point {
			case "run.start":
				n.runMu.Lock()
				n.runLoops[groupId]++
				n.runMu.Unlock()
			case "run.exit":
				n.runMu.Lock()
				n.runLoops[groupId]--
				n.runMu.Unlock()
				return
			}
			if n.Dead() {
				runtime.Goexit() // crashed node: the ready-loop stops here
			}
			if f := c.OnEvent; f != nil {
				f(n, groupId, point, args...)
			}
		}
		raft.VerifHooks.TickC = func(nodeId uint64, groupId uuid.UUID) <-chan struct{} {
			c := cur()
			if c == nil {
				return nil
			}
			n := c.node(nodeId)
			if n == nil {
				return nil
			}
			ch := make(chan struct{}, 1)
			c.mu.Lock()
			c.ticks[key(nodeId, groupId, n.Incarnation)] = ch
			c.mu.Unlock()
			return ch
		}
		raft.VerifHooks.SnapC = func(nodeId uint64, groupId uuid.UUID) <-chan uint64 {
			c := cur()
			if c == nil {
				return nil
			}
			n := c.node(nodeId)
			if n == nil {
				return nil
			}
			ch := make(chan uint64, 1)
			c.mu.Lock()
			c.snaps[key(nodeId, groupId, n.Incarnation)] = ch
			c.mu.Unlock()
			return ch
		}
		anndb.VerifGrpcServerOptions = func(cfg *anndb.Config) []grpc.ServerOption {
			c := cur()
			if c == nil {
				return nil
			}
			n := c.node(cfg.RaftNodeId)
			if n == nil {
				return nil
			}
			return []grpc.ServerOption{grpc.UnaryInterceptor(n.unary), grpc.StreamInterceptor(n.stream)}
		}
		storage.VerifPoint = func(point string, args ...interface{}) {
			if c := cur(); c != nil {
				if f := c.OnPoint; f != nil {
					f(point, args...)
				}
			}
		}
		cluster.VerifYield = func(point string) {
			if c := cur(); c != nil {
				if f := c.OnPoint; f != nil {
					f(point)
				}
			}
		}
	})
}

func freePort() string { return ports.Free() }

// New prepares a cluster (nothing is started yet).
func New(opt Options) *Cluster {
	installHooks()
	c := &Cluster{Opt: opt, ticks: map[string]chan struct{}{}, snaps: map[string]chan uint64{}, wals: map[string]*RecWAL{}, stopC: make(chan struct{})}
	if opt.SimNet {
		c.Net = newSimNet(c, opt.Seed)
	}
	for i := 0; i < opt.Nodes; i++ {
		p := freePort()
		n := &Node{Idx: i, Id: uint64(i + 1), Port: p, Addr: net.JoinHostPort("", p), Dir: filepath.Join(opt.Dir, fmt.Sprintf("node%d", i+1)),
			c: c, rpcFaults: map[string]RPCFault{}, runLoops: map[uuid.UUID]int{}}
		os.MkdirAll(n.Dir, 0o755)
		c.Nodes = append(c.Nodes, n)
	}
	currentMu.Lock()
	current = c
	currentMu.Unlock()
	if opt.TickEvery > 0 {
		go c.ticker()
	}
	return c
}

func (c *Cluster) ticker() {
	t := time.NewTicker(c.Opt.TickEvery)
	defer t.Stop()
	for {
		select {
		case <-c.stopC:
			return
		case <-t.C:
			c.Tick()
		}
	}
}

// Tick sends one virtual tick to every live group.
func (c *Cluster) Tick() {
	c.mu.Lock()
	chans := make([]chan struct{}, 0, len(c.ticks))
	for _, ch := range c.ticks {
		chans = append(chans, ch)
	}
	c.mu.Unlock()
	for _, ch := range chans {
		select {
		case ch <- struct{}{}:
		default:
		}
	}
	atomic.AddInt64(&c.TickCount, 1)
}

func (n *Node) config() *anndb.Config {
	cfg := anndb.NewConfig()
	cfg.RaftNodeId = n.Id
	cfg.DataDir = n.Dir
	cfg.Port = n.Port
	if n.Idx > 0 && !n.c.Opt.Solo {
		cfg.JoinNodes = []string{n.c.Nodes[0].Addr}
	}
	if n.JoinVia != "" {
		cfg.JoinNodes = []string{n.JoinVia}
	}
	if n.NoRejoin {
		// `-join false`: restart from the local state only, no join handshake
		cfg.JoinNodes = nil
		cfg.DoNotJoinCluster = true
	}
	return cfg
}

// StartNode creates and runs a server for the node and joins the cluster as
// cmd/anndb's main does.
func (c *Cluster) StartNode(i int) error {
	n := c.Nodes[i]
	n.Incarnation++
	atomic.StoreInt32(&n.dead, 0)
	n.runMu.Lock()
	n.runLoops = map[uuid.UUID]int{}
	n.runMu.Unlock()
	n.Srv = anndb.NewServer(n.config())
	var runErr error
	func() {
		defer func() {
			if p := recover(); p != nil {
				runErr = fmt.Errorf("panic in Server.Run: %v", p)
			}
		}()
		runErr = n.Srv.Run()
	}()
	if runErr != nil {
		return runErr
	}
	n.In = n.Srv.VerifInternals()
	var joinErr error
	if !c.Guard(40*time.Second, func() { joinErr = n.Srv.JoinCluster() }) {
		return fmt.Errorf("join handshake did not return within 40 s%s", c.Diag())
	}
	if joinErr != nil {
		return fmt.Errorf("join: %v", joinErr)
	}
	return nil
}

// ReadyLoopNoise installs seeded scheduling noise inside every ready-loop: at
// one in `every` of the loop's "ready" / "afterSave" / "beforeSendFollower"
// events the loop sleeps 0-11 ms, so that stops, deletions and snapshots meet
// a loop that is in the middle of a step. For checks that do not use OnEvent
// themselves.
func (c *Cluster) ReadyLoopNoise(seed uint64, every uint64) {
	var ctr uint64
	c.OnEvent = func(n *Node, g uuid.UUID, point string, args ...interface{}) {
		switch point {
		case "ready", "afterSave", "beforeSendFollower":
			h := (atomic.AddUint64(&ctr, 1)*0x9e3779b97f4a7c15 ^ seed) >> 40
			if h%every == 0 {
				time.Sleep(time.Duration(h%12) * time.Millisecond)
			}
		}
	}
}

// Diag describes every node's membership view and zero-group state. Each
// read is guarded: on a wedged node the address book's lock may never be free.
func (c *Cluster) Diag() string {
	diag := ""
	for _, m := range c.Nodes {
		in := m.In
		if in == nil || in.ZeroGroup == nil {
			continue
		}
		line := fmt.Sprintf(" | node %d dead=%v", m.Id, m.Dead())
		var bk map[uint64]string
		if c.Guard(2*time.Second, func() { bk = in.ClusterConn.Nodes() }) {
			line += fmt.Sprintf(" book=%v", bk)
		} else {
			line += " book=<address lock not available>"
		}
		var zs string
		if c.Guard(2*time.Second, func() {
			st := in.ZeroGroup.VerifStatus()
			zs = fmt.Sprintf(" zero{term=%d vote=%d lead=%d commit=%d applied=%d %s progress=%d}", st.Term, st.Vote, st.Lead, st.Commit, st.Applied, st.RaftState, len(st.Progress))
		}) {
			line += zs
		} else {
			line += " zero{status not available}"
		}
		diag += line
	}
	return diag
}

// Start starts every node in order.
func (c *Cluster) Start() error {
	for i := range c.Nodes {
		if err := c.StartNode(i); err != nil {
			return fmt.Errorf("node %d: %v", i+1, err)
		}
		if i == 0 || c.Opt.Solo {
			// the first node must have elected itself before others can join
			if err := c.WaitFor(20*time.Second, func() bool { return c.Nodes[i].ZeroLeader() != 0 }); err != nil {
				return fmt.Errorf("node %d never became leader of the zero group", i+1)
			}
			continue
		}
		if !c.Opt.NoJoinBarrier {
			// one membership change at a time: the next join is proposed only
			// after this one is applied everywhere (concurrent joins are C20's)
			if err := c.WaitMembership(i+1, 20*time.Second); err != nil {
				return fmt.Errorf("node %d: membership did not converge", i+1)
			}
		}
	}
	return nil
}

// WaitMembership waits until the first k nodes all list each other with the
// announced addresses and agree on a zero-group leader.
func (c *Cluster) WaitMembership(k int, d time.Duration) error {
	return c.WaitFor(d, func() bool {
		for _, n := range c.Nodes[:k] {
			if n.Dead() || n.In == nil {
				continue
			}
			if n.ZeroLeader() == 0 {
				return false
			}
			nodes := n.In.ClusterConn.Nodes()
			for _, m := range c.Nodes[:k] {
				if _, ok := nodes[m.Id]; !ok {
					return false
				}
			}
			st := n.In.ZeroGroup.VerifStatus()
			if st.RaftState.String() == "StateLeader" && len(st.Progress) < k {
				return false
			}
		}
		return true
	})
}

func (n *Node) ZeroLeader() uint64 {
	if n.In == nil || n.In.ZeroGroup == nil {
		return 0
	}
	return n.In.ZeroGroup.VerifStatus().Lead
}

// WaitFor polls cond; the wall-clock bound is a watchdog (its firing is
// inconclusive for the caller, never a verdict by itself).
func (c *Cluster) WaitFor(d time.Duration, cond func() bool) error {
	deadline := time.Now().Add(d)
	for {
		ok := false
		// the condition calls into the servers and may block on one of their
		// locks (that is what a wedged node looks like): evaluate it on the side
		if !c.Guard(3*time.Second, func() { ok = cond() }) {
			ok = false
		}
		if ok {
			return nil
		}
		if time.Now().After(deadline) {
			return errors.New("watchdog")
		}
		time.Sleep(5 * time.Millisecond)
	}
}

// Guard runs f on a goroutine of its own and gives up after d; it reports
// whether f returned. A call that never returns is counted in Blocked.
func (c *Cluster) Guard(d time.Duration, f func()) bool {
	done := make(chan struct{})
	go func() {
		defer close(done)
		defer func() { recover() }()
		f()
	}()
	select {
	case <-done:
		return true
	case <-time.After(d):
		atomic.AddInt64(&c.Blocked, 1)
		return false
	}
}

// Crash marks the node dead: its ready-loops end at their next event, SimNet
// and the interceptors refuse its traffic. Nothing is persisted afterwards.
func (c *Cluster) Crash(i int) {
	n := c.Nodes[i]
	atomic.StoreInt32(&n.dead, 1)
}

// Teardown releases a crashed (or live) node's resources: ports, Badger.
func (c *Cluster) Teardown(i int) {
	n := c.Nodes[i]
	atomic.StoreInt32(&n.dead, 1)
	// wait for the ready-loops to end (they do at their next event or tick)
	c.WaitFor(3*time.Second, func() bool {
		n.runMu.Lock()
		defer n.runMu.Unlock()
		for _, k := range n.runLoops {
			if k > 0 {
				return false
			}
		}
		return true
	})
	c.mu.Lock()
	for k := range c.ticks {
		if strings.HasPrefix(k, fmt.Sprintf("%d/", n.Id)) {
			delete(c.ticks, k)
		}
	}
	for k := range c.snaps {
		if strings.HasPrefix(k, fmt.Sprintf("%d/", n.Id)) {
			delete(c.snaps, k)
		}
	}
	c.mu.Unlock()
	if n.Srv != nil && n.In != nil {
		done := make(chan struct{})
		srv, in := n.Srv, n.In // the fields are cleared below even if Stop never returns
		go func() {
			defer close(done)
			defer func() { recover() }()
			if in.GrpcServer != nil {
				in.GrpcServer.Stop() // hard stop: do not wait for handlers
			}
			srv.Stop()
		}()
		select {
		case <-done:
		case <-time.After(20 * time.Second):
		}
	}
	n.Srv, n.In = nil, nil
}

// Restart = teardown + a new server on the same data directory and port.
func (c *Cluster) Restart(i int) error {
	c.Teardown(i)
	return c.StartNode(i)
}

// Close stops everything and removes the data directories.
func (c *Cluster) Close() {
	select {
	case <-c.stopC:
	default:
		close(c.stopC)
	}
	if c.Net != nil {
		c.Net.Close()
	}
	var wg sync.WaitGroup
	for i := range c.Nodes {
		wg.Add(1)
		go func(i int) { defer wg.Done(); c.Teardown(i) }(i)
	}
	wg.Wait()
	currentMu.Lock()
	if current == c {
		current = nil
	}
	currentMu.Unlock()
	for _, n := range c.Nodes {
		os.RemoveAll(n.Dir)
	}
}

func (c *Cluster) Fatals() []Fatal {
	c.mu.Lock()
	defer c.mu.Unlock()
	return append([]Fatal(nil), c.fatals...)
}

// TriggerSnapshot asks a group's ready-loop to snapshot + compact now.
func (c *Cluster) TriggerSnapshot(n *Node, group uuid.UUID, skip uint64) bool {
	c.mu.Lock()
	ch := c.snaps[key(n.Id, group, n.Incarnation)]
	c.mu.Unlock()
	if ch == nil {
		return false
	}
	select {
	case ch <- skip:
		return true
	case <-time.After(2 * time.Second):
		return false
	}
}

func (c *Cluster) WAL(n *Node, group uuid.UUID) *RecWAL {
	c.mu.Lock()
	defer c.mu.Unlock()
	return c.wals[key(n.Id, group, n.Incarnation)]
}

// PrevWAL returns the recorder the node's previous incarnation used for the
// group: once that incarnation's loops have ended its view is exactly what
// the incarnation made durable.
func (c *Cluster) PrevWAL(n *Node, group uuid.UUID) *RecWAL {
	c.mu.Lock()
	defer c.mu.Unlock()
	return c.wals[key(n.Id, group, n.Incarnation-1)]
}

// ---- gRPC interceptors ----------------------------------------------------

var ErrNodeDown = errors.New("sim: node down")

func (n *Node) SetFault(method string, f RPCFault) {
	n.rpcMu.Lock()
	n.rpcFaults[method] = f
	n.rpcMu.Unlock()
}

// SetOnStreamDone installs the stream-completion callback.
func (n *Node) SetOnStreamDone(f func(method string, req interface{}, err error)) {
	n.rpcMu.Lock()
	n.OnStreamDone = f
	n.rpcMu.Unlock()
}

func (n *Node) ClearFaults() {
	n.rpcMu.Lock()
	n.rpcFaults = map[string]RPCFault{}
	n.rpcMu.Unlock()
}

func (n *Node) RPCLog() []RPCRecord {
	n.rpcMu.Lock()
	defer n.rpcMu.Unlock()
	return append([]RPCRecord(nil), n.rpcLog...)
}

func (n *Node) ResetRPCLog() {
	n.rpcMu.Lock()
	n.rpcLog = nil
	n.rpcMu.Unlock()
}

func (n *Node) fault(ctx context.Context, method string, req interface{}) error {
	if n.Dead() {
		return ErrNodeDown
	}
	short := method[strings.LastIndex(method, "/")+1:]
	n.rpcMu.Lock()
	f, ok := n.rpcFaults[short]
	if !ok {
		f, ok = n.rpcFaults["*"]
	}
	if short != "Receive" && len(n.rpcLog) < 100000 {
		n.rpcLog = append(n.rpcLog, RPCRecord{Method: short, Req: req, At: time.Now()})
	}
	n.rpcMu.Unlock()
	if !ok {
		return nil
	}
	if f.Hang {
		<-ctx.Done()
		return ctx.Err()
	}
	if f.Delay > 0 {
		select {
		case <-time.After(f.Delay):
		case <-ctx.Done():
			return ctx.Err()
		}
	}
	if f.Gate != nil {
		f.Gate(ctx, req)
	}
	if f.Decide != nil {
		if err := f.Decide(ctx, req); err != nil {
			return err
		}
	}
	return f.Err
}

func (n *Node) unary(ctx context.Context, req interface{}, info *grpc.UnaryServerInfo, handler grpc.UnaryHandler) (interface{}, error) {
	if err := n.fault(ctx, info.FullMethod, req); err != nil {
		return nil, err
	}
	return handler(ctx, req)
}

type recStream struct {
	grpc.ServerStream
	n      *Node
	method string
	first  bool
	err    error
	req    interface{}
	sent   int
}

func (s *recStream) SendMsg(m interface{}) error {
	short := s.method[strings.LastIndex(s.method, "/")+1:]
	s.n.rpcMu.Lock()
	f, ok := s.n.rpcFaults[short]
	s.n.rpcMu.Unlock()
	if ok && f.CutAfter > 0 {
		if s.sent >= f.CutAfter {
			if f.CutOnce {
				s.n.rpcMu.Lock()
				delete(s.n.rpcFaults, short)
				s.n.rpcMu.Unlock()
			}
			return status.Error(codes.Unavailable, "sim: connection lost while the answer was streamed")
		}
		s.sent++
	}
	return s.ServerStream.SendMsg(m)
}

func (s *recStream) RecvMsg(m interface{}) error {
	if err := s.ServerStream.RecvMsg(m); err != nil {
		return err
	}
	if !s.first {
		s.first = true
		s.req = m
		s.err = s.n.fault(s.Context(), s.method, m)
	}
	return s.err
}

func (n *Node) stream(srv interface{}, ss grpc.ServerStream, info *grpc.StreamServerInfo, handler grpc.StreamHandler) error {
	if n.Dead() {
		return ErrNodeDown
	}
	rs := &recStream{ServerStream: ss, n: n, method: info.FullMethod}
	err := handler(srv, rs)
	n.rpcMu.Lock()
	f := n.OnStreamDone
	n.rpcMu.Unlock()
	if f != nil && rs.req != nil {
		f(info.FullMethod[strings.LastIndex(info.FullMethod, "/")+1:], rs.req, err)
	}
	return err
}

// ---- dataset helpers --------------------------------------------------------

func (n *Node) DM() *storage.DatasetManager {
	if n.In == nil {
		return nil
	}
	return n.In.DatasetManager
}

func (n *Node) Dataset(id uuid.UUID) *storage.Dataset {
	dm := n.DM()
	if dm == nil {
		return nil
	}
	d, err := dm.Get(id)
	if err != nil {
		return nil
	}
	return d
}

// PartitionIndex returns the node's local index of a partition when its raft
// group is loaded there.
func (n *Node) PartitionIndex(ds, pid uuid.UUID) *index.Hnsw {
	d := n.Dataset(ds)
	if d == nil {
		return nil
	}
	idx, loaded := d.VerifPartitionIndex(pid)
	if !loaded {
		return nil
	}
	return idx
}

func (n *Node) PartitionRaft(ds, pid uuid.UUID) *raft.RaftGroup {
	d := n.Dataset(ds)
	if d == nil {
		return nil
	}
	g, _ := d.VerifPartitionRaft(pid).(*raft.RaftGroup)
	return g
}

// CreateDataset creates a dataset through node `via` and waits until every
// node lists it and every assigned replica has a loaded raft group with a
// known leader.
func (c *Cluster) CreateDataset(via int, dim, partitions, replication uint32, space pb.Space) (uuid.UUID, *pb.Dataset, error) {
	var ds *storage.Dataset
	var err error
	// Create has a 1 s internal deadline; a fresh cluster may still be electing
	for attempt := 0; attempt < 8; attempt++ {
		ds, err = c.Nodes[via].DM().Create(context.Background(), &pb.Dataset{Dimension: dim, PartitionCount: partitions, ReplicationFactor: replication, Space: space})
		if err == nil {
			break
		}
		time.Sleep(100 * time.Millisecond)
	}
	if err != nil {
		return uuid.Nil, nil, err
	}
	meta := ds.Meta()
	id := uuid.FromBytesOrNil(meta.GetId())
	if err := c.WaitDatasetReady(id, 30*time.Second); err != nil {
		return id, meta, fmt.Errorf("dataset not ready: %v", err)
	}
	return id, meta, nil
}

func (c *Cluster) WaitDatasetReady(id uuid.UUID, d time.Duration) error {
	return c.WaitFor(d, func() bool {
		for _, n := range c.Nodes {
			if n.Dead() || n.In == nil {
				continue
			}
			dset := n.Dataset(id)
			if dset == nil {
				return false
			}
			for _, pid := range dset.VerifPartitionIds() {
				for _, nid := range dset.VerifPartitionNodeIds(pid) {
					if nid != n.Id {
						continue
					}
					g := n.PartitionRaft(id, pid)
					if g == nil || g.VerifStatus().Lead == 0 {
						return false
					}
				}
			}
		}
		return true
	})
}
