// C10 — item routing is a stable, total function of the id and the partition count.
package c10

import (
	"context"
	"encoding/binary"
	"fmt"
	"hash/fnv"
	"os"
	"runtime"
	"strconv"
	"strings"
	"sync"
	"sync/atomic"
	"testing"
	"time"

	pb "github.com/marekgalovic/anndb/protobuf"
	"github.com/marekgalovic/anndb/utils"
	uuid "github.com/satori/go.uuid"
	"verif/harness/mon"
	"verif/harness/sim"
)

func ids(rec *mon.Recorder, n int) []uuid.UUID {
	rng := rec.Rand("c10-ids", 0)
	out := make([]uuid.UUID, 0, n+300)
	var u uuid.UUID
	out = append(out, u) // all zero
	for i := range u {
		u[i] = 0xff
	}
	out = append(out, u)             // all ones
	for bit := 0; bit < 128; bit++ { // single bits
		var b uuid.UUID
		b[bit/8] = 1 << uint(bit%8)
		out = append(out, b)
	}
	for len(out) < n {
		var r uuid.UUID
		rng.Read(r[:])
		out = append(out, r)
		if len(out)%50 == 0 { // halves swapped
			var s uuid.UUID
			copy(s[:8], r[8:])
			copy(s[8:], r[:8])
			out = append(out, s)
		}
	}
	return out
}

func table(idl []uuid.UUID, fail func(sym, detail string)) uint64 {
	h := fnv.New64a()
	var buf [8]byte
	for n := uint64(1); n <= 1024; n++ {
		for _, id := range idl {
			r := utils.UuidMod(id, n)
			if r >= n {
				fail("out-of-range", fmt.Sprintf("UuidMod(%s, %d) = %d", id, n, r))
				return 0
			}
			binary.LittleEndian.PutUint64(buf[:], r)
			h.Write(buf[:])
		}
	}
	return h.Sum64()
}

func TestC10(t *testing.T) {
	rec := mon.Open("C10")
	defer rec.Finish(t)
	if rec.Shard() == 0 {
		pure(rec)
	}
	n := rec.N(4, 40)
	for c := 0; c < n; c++ {
		if rec.Mine(c + 1) {
			system(rec, c)
		}
	}
}

// TestC10Table prints the digest of the whole routing table from a fresh process.
func TestC10Table(t *testing.T) {
	if os.Getenv("VERIF_ISOLATED") == "" {
		t.Skip("only run through RunIsolated")
	}
	rec := mon.Open("C10")
	defer rec.Finish(t)
	n, _ := strconv.Atoi(os.Getenv("VERIF_C10_IDS"))
	d := table(ids(rec, n), func(sym, detail string) { rec.Violation("pure:"+sym, detail, nil) })
	rec.Seen("table_digest", fmt.Sprintf("%016x", d))
}

func pure(rec *mon.Recorder) {
	nIds := rec.N(20000, 200000)
	idl := ids(rec, nIds)
	fail := func(sym, detail string) { rec.Violation("pure:"+sym, detail, nil) }
	d1 := table(idl, fail)
	// repeated evaluation, from several goroutines at once, under another GOMAXPROCS
	prev := runtime.GOMAXPROCS(3)
	var wg sync.WaitGroup
	ds := make([]uint64, 4)
	for g := range ds {
		wg.Add(1)
		go func(g int) { defer wg.Done(); ds[g] = table(idl[:2000], func(string, string) {}) }(g)
	}
	wg.Wait()
	runtime.GOMAXPROCS(prev)
	dpart := table(idl[:2000], fail)
	for _, d := range ds {
		if d != dpart {
			fail("unstable-on-repeat", "routing table differs between repeated / concurrent evaluations in one process")
		}
	}
	rec.Count("pure_evaluations", int64(len(idl))*1024)
	// two fresh processes must compute the same table
	for i := 0; i < 2; i++ {
		iso := rec.RunIsolated("^TestC10Table$", map[string]string{"VERIF_C10_IDS": fmt.Sprint(nIds)}, 10*time.Minute)
		if iso.Summary == nil {
			rec.Inconclusive("table child produced no summary: " + iso.Crash)
			continue
		}
		got := iso.Summary.Sets["table_digest"]
		if len(got) != 1 || got[0] != fmt.Sprintf("%016x", d1) {
			fail("differs-across-processes", fmt.Sprintf("parent table digest %016x, fresh process %v", d1, got))
		}
		rec.Count("fresh_process_tables", 1)
	}
	rec.Case(mon.Digest("pure", nIds), true)
	rec.Sample(map[string]interface{}{"pure_ids": len(idl), "moduli": "1..1024", "table_digest": fmt.Sprintf("%016x", d1)})
}

// retry repeats a call while it fails for transport reasons (the peers' cached
// connections to a restarted node reconnect with back-off); a routing failure
// ("not found") is returned at once.
func retry(f func() error) error {
	var err error
	for i := 0; i < 60; i++ {
		if err = f(); err == nil || strings.Contains(err.Error(), "not found") || strings.Contains(err.Error(), "already exists") {
			return err
		}
		time.Sleep(200 * time.Millisecond)
	}
	return err
}

var apiPaths = []string{"insert", "update", "remove", "batch-insert", "batch-update", "batch-remove"}

func system(rec *mon.Recorder, c int) {
	rng := rec.Rand("c10-sys", c)
	nodes := 3
	parts := []int{5, 3, 8, 7, 1, 6, 2, 11}[c%8]
	repl := 1 + rng.Intn(2)
	desc := fmt.Sprintf("case=%d nodes=%d partitions=%d replication=%d", c, nodes, parts, repl)
	rec.Current(desc)
	cl := sim.New(sim.Options{Nodes: nodes, Dir: os.Getenv("VERIF_SCRATCH") + fmt.Sprintf("/c10-%d", c), TickEvery: 10 * time.Millisecond, Seed: rec.Seed() + int64(c)})
	defer cl.Close()
	// a partition whose log writes are stalled for a while (see the abandoned-write phase below)
	var stalledGroup atomic.Value
	stalledGroup.Store(uuid.UUID{})
	cl.SaveDelay = func(n *sim.Node, g uuid.UUID) time.Duration {
		if sg := stalledGroup.Load().(uuid.UUID); !uuid.Equal(sg, uuid.Nil) && uuid.Equal(sg, g) {
			return 350 * time.Millisecond
		}
		return 0
	}
	// one node applies late: with two replicas per partition, its partition groups' ready-loops are held for a while
	// before every Ready (it has stored and acknowledged an entry well before it applies it), so that an operation
	// issued on it right after a write acknowledged through another node meets a replica that has not applied that write
	var slowNode uint64
	if repl >= 2 && nodes >= 2 {
		slowNode = uint64(1 + c%nodes)
		cl.OnEvent = func(n *sim.Node, g uuid.UUID, point string, args ...interface{}) {
			if n.Id != atomic.LoadUint64(&slowNode) || uuid.Equal(g, uuid.Nil) {
				return
			}
			switch point {
			case "ready":
				time.Sleep(15 * time.Millisecond)
			case "beforeSave":
				// as a leader it has sent the Ready's messages (which carry the new commit index) by now and has not
				// saved or applied yet: the followers may apply, and answer their callers, before it does
				time.Sleep(6 * time.Millisecond)
			}
		}
		rec.Count("cases_with_a_replica_that_applies_late", 1)
	}
	if err := cl.Start(); err != nil {
		rec.Inconclusive(desc + ": cluster start: " + err.Error())
		return
	}
	dsId, meta, err := cl.CreateDataset(rng.Intn(nodes), 3, uint32(parts), uint32(repl), pb.Space_Euclidean)
	if err != nil {
		rec.Inconclusive(desc + ": create dataset: " + err.Error())
		return
	}
	pids := make([]uuid.UUID, parts)
	for i, p := range meta.Partitions {
		pids[i] = uuid.FromBytesOrNil(p.Id)
	}
	ctx := context.Background()
	replay := map[string]interface{}{"case": c, "seed": rec.Seed(), "desc": desc}
	violated := false
	fail := func(sym, detail string) {
		if !violated {
			violated = true
			rec.Violation("system:"+sym, desc+": "+detail, replay)
		}
	}
	// where is id stored? (every node, every partition)
	holders := func(id uuid.UUID) map[int][]uint64 {
		out := map[int][]uint64{}
		for _, n := range cl.Nodes {
			for i, pid := range pids {
				if idx := n.PartitionIndex(dsId, pid); idx != nil {
					if _, err := idx.Get(id); err == nil {
						out[i] = append(out[i], n.Id)
					}
				}
			}
		}
		return out
	}
	expectStored := func(id uuid.UUID, what string, present bool) {
		owner := int(utils.UuidMod(id, uint64(parts)))
		want := cl.Nodes[0].Dataset(dsId).VerifPartitionNodeIds(pids[owner])
		err := cl.WaitFor(10*time.Second, func() bool {
			h := holders(id)
			if !present {
				return len(h) == 0
			}
			return len(h) == 1 && len(h[owner]) == len(want)
		})
		if err != nil {
			fail("misplaced-after-"+what, fmt.Sprintf("id %s (owner partition %d on nodes %v, expected present=%v) is held by partition->nodes %v", id, owner, want, present, holders(id)))
		}
		rec.Count("placements_checked", 1)
	}
	call := func(entry *sim.Node, path string, id uuid.UUID, val float32) error {
		d := entry.Dataset(dsId)
		cctx, cancel := context.WithTimeout(ctx, 8*time.Second)
		defer cancel()
		item := []*pb.BatchItem{{Id: id.Bytes(), Value: []float32{val, 1, 2}, Metadata: map[string]string{"p": path}}}
		var errs map[uuid.UUID]error
		var err error
		switch path {
		case "insert":
			return d.Insert(cctx, id, []float32{val, 1, 2}, map[string]string{"p": path})
		case "update":
			return d.Update(cctx, id, []float32{val, 1, 2}, map[string]string{"p": path})
		case "remove":
			return d.Remove(cctx, id)
		case "batch-insert":
			errs, err = d.BatchInsert(cctx, item)
		case "batch-update":
			errs, err = d.BatchUpdate(cctx, item)
		case "batch-remove":
			errs, err = d.BatchRemove(cctx, item)
		}
		if err != nil {
			return err
		}
		if e, ok := errs[id]; ok {
			return e
		}
		return nil
	}
	// Reads must not change the answer: the owner depends on the id and the partition count only, whatever a node
	// has served before. Size queries and searches are issued on every node between the write phases (and, in
	// every second case, before the first write).
	reads := func(when string) {
		for _, n := range cl.Nodes {
			d := n.Dataset(dsId)
			if d == nil {
				continue
			}
			cctx, cancel := context.WithTimeout(ctx, 8*time.Second)
			if _, _, err := d.SizeInfo(cctx); err == nil {
				rec.Count("size_queries_between_writes", 1)
			}
			if _, err := d.Search(cctx, []float32{float32(rng.Intn(100)), 1, 2}, 3); err == nil {
				rec.Count("searches_between_writes", 1)
			}
			cancel()
		}
		rec.Seen("read_phases", when)
	}
	if c%2 == 1 {
		reads("before-first-write")
	}
	serial := 0
	// every entry node x every write path: insert -> (update from another node) -> remove from a third
	for e, entry := range cl.Nodes {
		for _, ins := range []string{"insert", "batch-insert"} {
			for _, upd := range []string{"update", "batch-update"} {
				for _, rem := range []string{"remove", "batch-remove"} {
					if violated {
						return
					}
					serial++
					// full-entropy ids: both 64-bit halves random (half of them have
					// halves whose sum wraps around), plus the structured corner ids
					var id uuid.UUID
					rng.Read(id[:])
					switch serial % 6 {
					case 0:
						for i := range id {
							id[i] = 0xff
						}
						id[0] = byte(serial)
					case 1:
						id[15] |= 0x80
						id[7] |= 0x80
					case 2:
						// the two ids no generator of identifiers produces, and an id is any 128 bits: all zero, all ones
						// (each is removed again at the end of its turn, so it can come back)
						id = uuid.UUID{}
						if serial%12 == 8 {
							for i := range id {
								id[i] = 0xff
							}
						}
						rec.Count("corner_ids_written_through_the_cluster", 1)
					}
					if err := call(entry, ins, id, float32(serial)); err != nil {
						fail("write-failed:"+ins, fmt.Sprintf("%s through node %d: %v", ins, entry.Id, err))
						return
					}
					if atomic.LoadUint64(&slowNode) == 0 || serial%2 == 0 {
						expectStored(id, ins, true)
					} // else: the update follows the acknowledgement at once, wherever the replicas are
					other := cl.Nodes[(e+1)%nodes]
					if err := call(other, upd, id, float32(serial)+0.5); err != nil {
						fail("not-found-from-other-node:"+upd, fmt.Sprintf("%s of id written through node %d issued on node %d: %v", upd, entry.Id, other.Id, err))
						return
					}
					expectStored(id, upd, true)
					third := cl.Nodes[(e+2)%nodes]
					if err := call(third, rem, id, 0); err != nil {
						fail("not-found-from-other-node:"+rem, fmt.Sprintf("%s of id written through node %d issued on node %d: %v", rem, entry.Id, third.Id, err))
						return
					}
					expectStored(id, rem, false)
					rec.Seen("paths", fmt.Sprintf("entry%d:%s>%s>%s", entry.Id, ins, upd, rem))
				}
			}
		}
	}
	atomic.StoreUint64(&slowNode, 0)
	// --- batches that span partitions: every item of one request goes to its own
	// owner, whatever else is in the request
	for round := 0; round < 3 && !violated; round++ {
		reads("before-multi-partition-batches")
		entry := cl.Nodes[round%nodes]
		n := 8 + rng.Intn(17)
		var items []*pb.BatchItem
		var ids []uuid.UUID
		for i := 0; i < n; i++ {
			var id uuid.UUID
			rng.Read(id[:])
			ids = append(ids, id)
			items = append(items, &pb.BatchItem{Id: id.Bytes(), Value: []float32{float32(2000 + i), 1, 2}, Metadata: map[string]string{"p": "multi"}})
		}
		// in every second round the request also carries items that are refused (wrong dimension), first and in the
		// middle: where the others go depends on their own id only
		request := items
		if round%2 == 1 {
			bad := func() *pb.BatchItem {
				var id uuid.UUID
				rng.Read(id[:])
				return &pb.BatchItem{Id: id.Bytes(), Value: []float32{1, 2}}
			}
			request = append([]*pb.BatchItem{bad()}, items[:n/2]...)
			request = append(request, bad())
			request = append(request, items[n/2:]...)
			rec.Count("multi_partition_batches_with_refused_items", 1)
		}
		for _, step := range []string{"batch-insert", "batch-update", "batch-remove"} {
			cctx, cancel := context.WithTimeout(ctx, 10*time.Second)
			var errs map[uuid.UUID]error
			var err error
			switch step {
			case "batch-insert":
				errs, err = entry.Dataset(dsId).BatchInsert(cctx, request)
			case "batch-update":
				errs, err = cl.Nodes[(round+1)%nodes].Dataset(dsId).BatchUpdate(cctx, request)
			default:
				errs, err = cl.Nodes[(round+2)%nodes].Dataset(dsId).BatchRemove(cctx, items)
			}
			cancel()
			if err != nil {
				fail("write-failed:multi-"+step, fmt.Sprintf("%s of %d ids spanning partitions: %v", step, n, err))
				return
			}
			for _, id := range ids {
				if e := errs[id]; e != nil {
					fail("not-found-in-owner:multi-"+step, fmt.Sprintf("%s of %d ids spanning partitions: id %s (owner partition %d): %v", step, n, id, utils.UuidMod(id, uint64(parts)), e))
					return
				}
			}
			for _, id := range ids {
				if violated {
					return
				}
				expectStored(id, "multi-"+step, step != "batch-remove")
			}
			rec.Seen("paths", "multi-partition-"+step)
		}
	}
	// --- a write whose caller gives up while its partition's log write is stalled (a slow disk), followed at once by
	// a write for another partition: whatever becomes of the abandoned write, it and the write after it are stored in
	// their own partitions only
	for round := 0; round < 4 && !violated && parts >= 2; round++ {
		var a, b uuid.UUID
		rng.Read(a[:])
		pa := int(utils.UuidMod(a, uint64(parts)))
		for {
			rng.Read(b[:])
			if int(utils.UuidMod(b, uint64(parts))) != pa {
				break
			}
		}
		entry := cl.Nodes[round%nodes]
		stalledGroup.Store(pids[pa])
		cctx, cancel := context.WithTimeout(ctx, 120*time.Millisecond)
		var errA error
		if round%2 == 0 {
			errA = entry.Dataset(dsId).Insert(cctx, a, []float32{3000, 1, 2}, map[string]string{"p": "abandoned"})
		} else {
			_, errA = entry.Dataset(dsId).BatchInsert(cctx, []*pb.BatchItem{{Id: a.Bytes(), Value: []float32{3000, 1, 2}, Metadata: map[string]string{"p": "abandoned"}}})
		}
		cancel()
		// the next write, through the same node, for another partition
		errB := call(entry, []string{"insert", "batch-insert"}[(round/2)%2], b, 3001)
		stalledGroup.Store(uuid.UUID{})
		if errA == nil {
			rec.Count("stalled_writes_that_were_acknowledged_anyway", 1)
		} else {
			rec.Count("writes_abandoned_by_their_caller", 1)
		}
		time.Sleep(500 * time.Millisecond) // the stalled write completes (or not)
		if errB != nil {
			continue
		}
		expectStored(b, "a-write-that-followed-an-abandoned-write", true)
		if h := holders(a); len(h) > 1 || (len(h) == 1 && len(h[pa]) == 0) {
			fail("misplaced-abandoned-write", fmt.Sprintf("id %s (owner partition %d) whose insert was abandoned by its caller is held by partition->nodes %v", a, pa, h))
		}
		if h := holders(b); len(h[pa]) > 0 {
			fail("misplaced-after-a-write-that-followed-an-abandoned-write", fmt.Sprintf("id %s (owner partition %d) is also held by partition %d, whose abandoned write was in flight: %v", b, utils.UuidMod(b, uint64(parts)), pa, h))
		}
	}
	// --- every restart computes the same owner: items written before a restart (by
	// log replay, or from a compacted catalogue snapshot) are found afterwards
	// through the restarted node and through the others, by every path
	var kept []uuid.UUID
	for i := 0; i < 8 && !violated; i++ {
		var id uuid.UUID
		rng.Read(id[:])
		if err := call(cl.Nodes[i%nodes], []string{"insert", "batch-insert"}[i%2], id, float32(1000+i)); err != nil {
			fail("write-failed:insert", fmt.Sprintf("insert before the restart through node %d: %v", i%nodes+1, err))
			return
		}
		expectStored(id, "insert", true)
		kept = append(kept, id)
	}
	victim := cl.Nodes[rng.Intn(nodes)]
	how := "log-replay"
	if c%2 == 0 {
		for _, n := range cl.Nodes {
			cl.TriggerSnapshot(n, uuid.Nil, 0)
		}
		time.Sleep(100 * time.Millisecond)
		how = "catalogue-snapshot"
	}
	if err := cl.Restart(victim.Idx); err != nil {
		rec.Inconclusive(fmt.Sprintf("%s: restart of node %d: %v", desc, victim.Id, err))
		return
	}
	if err := cl.WaitDatasetReady(dsId, 30*time.Second); err != nil {
		rec.Inconclusive(fmt.Sprintf("%s: dataset not ready after the restart of node %d", desc, victim.Id))
		return
	}
	for i, id := range kept {
		if violated {
			return
		}
		upd := []string{"update", "batch-update"}[i%2]
		via := victim
		if i%4 >= 2 {
			via = cl.Nodes[(victim.Idx+1)%nodes]
		}
		if err := retry(func() error { return call(via, upd, id, float32(2000+i)) }); err != nil {
			if !strings.Contains(err.Error(), "not found") {
				rec.Inconclusive(fmt.Sprintf("%s: %s through node %d after the restart kept failing: %v", desc, upd, via.Id, err))
				return
			}
			fail("not-found-after-restart:"+how, fmt.Sprintf("%s through node %d of an id written before node %d restarted (%s): %v", upd, via.Id, victim.Id, how, err))
			return
		}
		expectStored(id, upd+"-after-restart", true)
		rem := []string{"remove", "batch-remove"}[(i/2)%2]
		if err := retry(func() error { return call(victim, rem, id, 0) }); err != nil {
			if !strings.Contains(err.Error(), "not found") {
				rec.Inconclusive(fmt.Sprintf("%s: %s through node %d after the restart kept failing: %v", desc, rem, victim.Id, err))
				return
			}
			fail("not-found-after-restart:"+how, fmt.Sprintf("%s through restarted node %d: %v", rem, victim.Id, err))
			return
		}
		expectStored(id, rem+"-after-restart", false)
	}
	rec.Seen("restart_kinds", how)
	rec.Case(mon.Digest(desc), true)
	if rec.WantSample() {
		rec.Sample(replay)
	}
}
