// C18 — membership changes and restarts never wedge a node's control plane.
// Bounded progress + structural wait-for cycle in goroutine dumps.
package c18

import (
	"context"
	"fmt"
	"github.com/coreos/etcd/raft/raftpb"
	"google.golang.org/grpc"
	"math/rand"
	"os"
	"regexp"
	"runtime"
	"sort"
	"strings"
	"sync"
	"sync/atomic"
	"testing"
	"time"

	"github.com/marekgalovic/anndb/cluster"
	pb "github.com/marekgalovic/anndb/protobuf"
	uuid "github.com/satori/go.uuid"
	"verif/harness/mon"
	"verif/harness/sim"
)

func TestC18(t *testing.T) {
	rec := mon.Open("C18")
	defer rec.Finish(t)
	// A wedged server cannot be torn down, so every scenario runs in a process
	// of its own; its recorder summary is merged here.
	n := rec.N(12, 240)
	for c := 0; c < n; c++ {
		if !rec.Mine(c) {
			continue
		}
		iso := rec.RunIsolated("^TestC18One$", map[string]string{"VERIF_CASE": fmt.Sprint(c)}, 8*time.Minute)
		rec.Merge(iso.Summary)
		if iso.Summary == nil {
			if iso.Crash != "" {
				rec.Violation("crash:"+iso.Crash+"@"+iso.Frame, fmt.Sprintf("case %d: the process hosting the cluster died", c), map[string]interface{}{"case": c, "log": iso.LogTail})
			} else {
				rec.Inconclusive(fmt.Sprintf("case %d: scenario process ended without a summary (timed out: %v)", c, iso.TimedOut))
			}
		}
	}
}

func TestC18One(t *testing.T) {
	if os.Getenv("VERIF_ISOLATED") == "" {
		t.Skip("only run through RunIsolated")
	}
	rec := mon.Open("C18")
	var c int
	fmt.Sscan(os.Getenv("VERIF_CASE"), &c)
	if c%12 == 5 {
		churnBehindLeaderlessGroup(rec, c)
	} else if c%12 == 11 {
		notificationContract(rec, c)
	} else {
		scenario(rec, c)
	}
	rec.Close()
	os.Exit(0) // do not wait for servers that may be wedged
}

func inList(l []string, s string) bool {
	for _, x := range l {
		if x == s {
			return true
		}
	}
	return false
}

type parked struct {
	id    string
	state string
	long  bool // parked for a minute or more (the runtime prints "N minutes")
	text  string
}

var goHead = regexp.MustCompile(`^goroutine (\d+) \[([^\]]+)\]`)

func dump() []parked {
	buf := make([]byte, 16<<20)
	buf = buf[:runtime.Stack(buf, true)]
	var out []parked
	for _, g := range strings.Split(string(buf), "\n\n") {
		m := goHead.FindStringSubmatch(g)
		if m == nil {
			continue
		}
		st := m[2]
		if i := strings.Index(st, ","); i >= 0 {
			st = st[:i]
		}
		out = append(out, parked{id: m[1], state: st, long: strings.Contains(m[2], "minutes"), text: g})
	}
	return out
}

// cycles looks for the lock-and-channel wait-for cycles of the control plane.
func cycles(gs []parked) map[string][]string {
	has := func(g parked, frames ...string) bool {
		for _, f := range frames {
			if !strings.Contains(g.text, f) {
				return false
			}
		}
		return true
	}
	found := map[string][]string{}
	var loopOnLock, loopOnProposal, watchSend, applyWatchSend, applyWatchLock, applyNotifySend, anyNotifySend []string
	for _, g := range gs {
		switch {
		case has(g, "storage.(*Allocator).run") && (has(g, "addNodeToPartitions") || has(g, "removeNodeFromPartitions")) && strings.HasPrefix(g.state, "sync.RWMutex"):
			loopOnLock = append(loopOnLock, g.id)
		case has(g, "storage.(*Allocator).run") && (has(g, "proposeAddNode") || has(g, "proposeRemoveNode")) && (g.state == "select" || g.state == "chan receive"):
			// blocked inside a proposal: waiting for the catalogue to apply its
			// replica-set change, or for the partition group to accept a
			// membership proposal (no leader)
			loopOnProposal = append(loopOnProposal, g.id)
		}
		if (has(g, "storage.(*Allocator).watch") || has(g, "storage.(*Allocator).unwatch")) && g.state == "chan send" {
			watchSend = append(watchSend, g.id)
			if has(g, "raft.(*RaftGroup).run") || has(g, "raft.(*RaftGroup).Start") {
				applyWatchSend = append(applyWatchSend, g.id)
			}
		}
		if (has(g, "storage.(*Allocator).watch") || has(g, "storage.(*Allocator).unwatch")) && strings.HasPrefix(g.state, "sync.RWMutex") &&
			(has(g, "raft.(*RaftGroup).run") || has(g, "raft.(*RaftGroup).Start")) {
			applyWatchLock = append(applyWatchLock, g.id)
		}
		if has(g, "cluster.(*Conn).sendNodesChangeNotification") && g.state == "chan send" {
			anyNotifySend = append(anyNotifySend, g.id)
			if has(g, "raft.(*RaftGroup).run") {
				applyNotifySend = append(applyNotifySend, g.id)
			}
		}
	}
	if len(loopOnLock) > 0 && len(watchSend) > 0 {
		found["allocator-loop-needs-the-lock-held-by-watch-which-waits-for-the-loop"] = append(loopOnLock, watchSend...)
	}
	if len(loopOnProposal) > 0 && len(applyWatchSend) > 0 {
		found["allocator-loop-waits-for-catalogue-apply-which-waits-for-the-loop-in-watch"] = append(loopOnProposal, applyWatchSend...)
	}
	if len(loopOnProposal) > 0 && len(applyWatchLock) > 0 {
		found["allocator-loop-holds-the-partitions-lock-across-a-catalogue-proposal-whose-apply-needs-that-lock-in-watch"] = append(loopOnProposal, applyWatchLock...)
	}
	if len(loopOnProposal) > 0 && len(applyNotifySend) > 0 {
		name := "allocator-loop-waits-for-catalogue-apply-which-waits-on-the-full-node-notification-channel"
		for _, g := range gs {
			if inList(loopOnProposal, g.id) && (has(g, "raft.(*RaftGroup).ProposeLeave") || has(g, "raft.(*RaftGroup).ProposeJoin")) {
				// not waiting for the catalogue at all: waiting for a leader of
				// the partition's own group
				name = "node-change-handler-waits-for-a-leader-of-a-partition-group-while-the-full-notification-channel-blocks-the-catalogue-apply"
			}
		}
		found[name] = append(loopOnProposal, applyNotifySend...)
	}
	if len(loopOnLock) > 0 && len(anyNotifySend) > 0 {
		found["allocator-loop-blocked-while-node-notification-sender-holds-the-address-lock"] = append(loopOnLock, anyNotifySend...)
	}
	return found
}

// persistentCycle decides a stall. A wait-for cycle is a wedge only if the
// same goroutines stay parked in it, in one uninterrupted wait each, for longer
// than any bounded wait of the control plane (proposal and membership
// timeouts are 5-10 s): the runtime prints a wait of a minute or more as
// "N minutes", and every goroutine of the cycle must show that. A cycle that
// dissolves or whose members re-park in the meantime is not a wedge.
//
// Cycles are recognised by frame names. Whatever its shape, a wedge of the
// control plane also shows as a ready-loop goroutine parked for more than a
// minute inside an apply callback (the loop itself wakes up every 100 ms):
// that is reported under the function and wait it is parked in when no named
// cycle is confirmed.
func persistentCycle() (string, []string, bool) {
	first := cycles(dump())
	firstApply := parkedInApply(dump())
	for id, where := range parkedOnLock(dump()) {
		if _, ok := firstApply[id]; !ok {
			firstApply[id] = where
		}
	}
	if len(first) == 0 && len(firstApply) == 0 {
		return "", nil, false
	}
	for waited := 0; waited < 90; waited += 4 {
		time.Sleep(4 * time.Second)
		gs := dump()
		now := cycles(gs)
		for name, ids := range first {
			if fmt.Sprint(now[name]) != fmt.Sprint(ids) {
				delete(first, name)
			}
		}
		nowApply := parkedInApply(gs)
		for id, where := range parkedOnLock(gs) {
			if _, ok := nowApply[id]; !ok {
				nowApply[id] = where
			}
		}
		for id, where := range firstApply {
			if nowApply[id] != where {
				delete(firstApply, id)
			}
		}
		if len(first) == 0 && len(firstApply) == 0 {
			return "", nil, false
		}
		var names []string
		for name := range first {
			names = append(names, name)
		}
		sort.Strings(names)
		for _, name := range names {
			all := true
			for _, id := range first[name] {
				for _, g := range gs {
					if g.id == id && !g.long {
						all = false
					}
				}
			}
			if all {
				return name, first[name], true
			}
		}
		if len(first) == 0 {
			var ids []string
			for id := range firstApply {
				ids = append(ids, id)
			}
			sort.Strings(ids)
			for _, id := range ids {
				for _, g := range gs {
					if g.id == id && g.long {
						if strings.HasPrefix(firstApply[id], "lock-wait-in-") {
							return firstApply[id], []string{id}, true
						}
						return "apply-goroutine-parked-in-" + firstApply[id], []string{id}, true
					}
				}
			}
		}
	}
	return "", nil, false
}

// parkedOnLock: goroutines of the control plane (innermost repository frame in cluster, storage or storage/raft)
// that wait for a mutex. Every lock of the control plane is held for a short section or across a wait that is
// itself bounded by seconds, so a goroutine that has waited for one for more than a minute waits for ever.
func parkedOnLock(gs []parked) map[string]string {
	out := map[string]string{}
	for _, g := range gs {
		if !strings.HasPrefix(g.state, "sync.") || strings.HasPrefix(g.state, "sync.Cond") || strings.HasPrefix(g.state, "sync.WaitGroup") {
			continue
		}
		m := repoFrame.FindStringSubmatch(g.text)
		if m == nil {
			continue
		}
		if !(strings.HasPrefix(m[1], "cluster.") || strings.HasPrefix(m[1], "storage.") || strings.HasPrefix(m[1], "storage/raft.")) {
			continue
		}
		out[g.id] = "lock-wait-in-" + m[1] + ":" + strings.ReplaceAll(g.state, " ", "-")
	}
	return out
}

var repoFrame = regexp.MustCompile(`(?m)^github\.com/marekgalovic/anndb/(\S+)\(`)

// parkedInApply: ready-loop goroutines that are parked inside something the
// loop called (innermost repository frame is not the loop itself), as
// id -> "<function>:<wait>".
func parkedInApply(gs []parked) map[string]string {
	out := map[string]string{}
	for _, g := range gs {
		if !strings.Contains(g.text, "raft.(*RaftGroup).run(") {
			continue
		}
		switch {
		case strings.HasPrefix(g.state, "sync."), g.state == "chan send", g.state == "chan receive", g.state == "select", g.state == "semacquire":
		default:
			continue // running, in a syscall, IO wait ...
		}
		m := repoFrame.FindStringSubmatch(g.text)
		if m == nil || strings.HasSuffix(m[1], "raft.(*RaftGroup).run") {
			continue
		}
		out[g.id] = m[1] + ":" + strings.ReplaceAll(g.state, " ", "-")
	}
	return out
}

func scenario(rec *mon.Recorder, c int) bool {
	rng := rec.Rand("c18", c)
	nodes := 3
	// three families: (0) joins only and replication <= members: the allocator
	// loop never has to propose anything; (1) node 3 is also removed and
	// re-joins, which makes the loop propose replica-set removals; (2) datasets
	// with more replicas than members, which makes it propose additions
	underReplicated := c%3 == 2
	removals := c%3 != 0
	desc := fmt.Sprintf("case=%d nodes=%d under_replicated_datasets=%v removals=%v", c, nodes, underReplicated, removals)
	rec.Current(desc)
	cl := sim.New(sim.Options{Nodes: nodes, Dir: os.Getenv("VERIF_SCRATCH") + fmt.Sprintf("/c18-%d", c), TickEvery: 5 * time.Millisecond, Seed: rec.Seed() + int64(c)})
	defer cl.Close()
	var dialsHolding, changesHolding int64
	// widen the window between "lock taken" and "handed to the loop"
	cl.OnPoint = func(point string, args ...interface{}) {
		if strings.HasPrefix(point, "allocator.") {
			if rng := time.Now().UnixNano() % 3; rng == 0 {
				runtime.Gosched()
			} else if rng == 1 {
				time.Sleep(200 * time.Microsecond)
			}
		}
		// the address book's own locks: a dial that has taken the connection lock, a membership change
		// that has taken the address lock
		if strings.HasPrefix(point, "conn.") {
			switch point {
			case "conn.dial.connsLocked":
				// a dial that missed the connection cache (first contact with a peer since it joined or
				// re-joined) holds the connection lock: keep it there for up to 220 ms, or until a membership
				// change has taken the address lock
				atomic.AddInt64(&dialsHolding, 1)
				rec.Count("dials_held_with_the_connection_lock", 1)
				limit := time.Duration(20+time.Now().UnixNano()%200) * time.Millisecond
				for t0 := time.Now(); time.Since(t0) < limit; {
					if atomic.LoadInt64(&changesHolding) > 0 {
						rec.Count("dial_and_membership_change_each_holding_one_lock", 1)
						time.Sleep(2 * time.Millisecond)
						break
					}
					time.Sleep(100 * time.Microsecond)
				}
				atomic.AddInt64(&dialsHolding, -1)
			default:
				atomic.AddInt64(&changesHolding, 1)
				if atomic.LoadInt64(&dialsHolding) > 0 {
					time.Sleep(3 * time.Millisecond)
				} else {
					time.Sleep(time.Duration(time.Now().UnixNano()%1500) * time.Microsecond)
				}
				atomic.AddInt64(&changesHolding, -1)
			}
		}
	}
	var steps []string
	var stepsMu sync.Mutex
	note := func(s string) { stepsMu.Lock(); steps = append(steps, s); stepsMu.Unlock() }
	replay := func() map[string]interface{} {
		stepsMu.Lock()
		defer stepsMu.Unlock()
		return map[string]interface{}{"case": c, "seed": rec.Seed(), "desc": desc, "steps": append([]string(nil), steps...)}
	}
	// verdict on a stall: structural cycle that persists => violation, else inconclusive
	stalled := func(what string) bool {
		if name, ids, ok := persistentCycle(); ok {
			r := replay()
			r["goroutines"] = ids
			r["stalled"] = what
			rec.Violation("wedge:"+name, fmt.Sprintf("%s: %s did not complete; goroutines %v have been parked in the same wait (wait-for cycle, or an apply callback of the ready-loop) for more than a minute", desc, what, ids), r)
			rec.Case(mon.Digest(desc, "wedged"), true)
			return true
		}
		if p := os.Getenv("VERIF_DUMP"); p != "" {
			buf := make([]byte, 16<<20)
			buf = buf[:runtime.Stack(buf, true)]
			os.WriteFile(p, buf, 0o644)
		}
		rec.Inconclusive(fmt.Sprintf("%s: %s did not complete within the watchdog, no persistent wait-for cycle found", desc, what))
		return true
	}
	if err := cl.StartNode(0); err != nil {
		rec.Inconclusive(desc + ": node 1: " + err.Error())
		return true
	}
	cl.WaitFor(20*time.Second, func() bool { return cl.Nodes[0].ZeroLeader() != 0 })
	if err := cl.StartNode(1); err != nil {
		rec.Inconclusive(desc + ": node 2: " + err.Error())
		return true
	}
	cl.WaitMembership(2, 20*time.Second)
	ctx := context.Background()
	var created []uuid.UUID
	var cmu sync.Mutex
	create := func(via *sim.Node, parts, repl uint32) bool {
		okc := false
		done := cl.Guard(8*time.Second, func() {
			for attempt := 0; attempt < 4 && !okc; attempt++ {
				d, err := via.DM().Create(ctx, &pb.Dataset{Dimension: 2, PartitionCount: parts, ReplicationFactor: repl})
				if err == nil {
					cmu.Lock()
					created = append(created, uuid.FromBytesOrNil(d.Meta().GetId()))
					cmu.Unlock()
					okc = true
				}
			}
		})
		return done
	}
	// under-replicated datasets: replication 3 while only two nodes are members,
	// so that the allocator loop itself proposes catalogue changes when node 3 joins
	firstRepl := uint32(2)
	if underReplicated {
		firstRepl = 3
	}
	for i := 0; i < 2+rng.Intn(3); i++ {
		if !create(cl.Nodes[i%2], uint32(1+rng.Intn(3)), firstRepl) {
			return !stalled("create of an under-replicated dataset")
		}
		note("create under-replicated dataset")
	}
	// burst: node 3 joins / is removed / re-joins while datasets are created and deleted
	var wg sync.WaitGroup
	var hung int32
	// ... and while clients list the datasets with their sizes, without a deadline (as the command-line client does):
	// a node asked for sizes asks the other nodes for the partitions it does not hold, both ways at once
	var listersStop int32
	var listers sync.WaitGroup
	var sizeListings int64
	if c%2 == 1 {
		// a dataset of many single-replica partitions spread over both nodes: each node lacks about half of them, and
		// every membership change makes the allocators propose a change for every one of them
		if !create(cl.Nodes[0], 32, 1) {
			return !stalled("create of a dataset of many single-replica partitions")
		}
		note("create a dataset of 32 single-replica partitions")
		for _, n := range cl.Nodes[:2] {
			for k := 0; k < 3; k++ {
				listers.Add(1)
				go func(n *sim.Node) {
					defer listers.Done()
					for atomic.LoadInt32(&listersStop) == 0 {
						if dm := n.DM(); dm != nil {
							dm.List(context.Background(), true)
							atomic.AddInt64(&sizeListings, 1)
						}
						time.Sleep(time.Millisecond)
					}
				}(n)
			}
		}
	}
	wg.Add(2)
	go func() {
		defer wg.Done()
		cycles := 2 + rng.Intn(3)
		for k := 0; k < cycles && atomic.LoadInt32(&hung) == 0; k++ {
			if err := cl.StartNode(2); err != nil {
				note("join 3 failed: " + err.Error())
				if strings.Contains(err.Error(), "did not return") {
					atomic.StoreInt32(&hung, 1)
				}
				return
			}
			note("node 3 joined")
			if k%2 == 1 {
				// removed again at once: the others' first dials to it are still under way
				time.Sleep(time.Duration(rng.Intn(30)) * time.Millisecond)
			} else {
				time.Sleep(time.Duration(50+rng.Intn(150)) * time.Millisecond)
			}
			if !removals {
				return
			}
			okr := false
			if !cl.Guard(15*time.Second, func() { okr = cl.Nodes[0].In.NodesManager.RemoveNode(3) == nil }) {
				atomic.StoreInt32(&hung, 1)
				return
			}
			note(fmt.Sprintf("node 3 removed ok=%v", okr))
			cl.Crash(2)
			cl.Teardown(2)
		}
	}()
	go func() {
		defer wg.Done()
		crng := rec.Rand("c18-catalogue", c)
		for k := 0; k < 10 && atomic.LoadInt32(&hung) == 0; k++ {
			via := cl.Nodes[crng.Intn(2)]
			if crng.Intn(3) > 0 {
				maxRepl := 2 // never more replicas than members unless the variant asks for it
				if underReplicated {
					maxRepl = 3
				}
				if !create(via, uint32(1+crng.Intn(2)), uint32(1+crng.Intn(maxRepl))) {
					atomic.StoreInt32(&hung, 1)
					return
				}
				note("create")
			} else {
				cmu.Lock()
				var id uuid.UUID
				if len(created) > 0 {
					id = created[crng.Intn(len(created))]
				}
				cmu.Unlock()
				if !uuid.Equal(id, uuid.Nil) {
					if !cl.Guard(8*time.Second, func() { via.DM().Delete(ctx, id) }) {
						atomic.StoreInt32(&hung, 1)
						return
					}
					note("delete")
				}
			}
			time.Sleep(time.Duration(crng.Intn(40)) * time.Millisecond)
		}
	}()
	wg.Wait()
	atomic.StoreInt32(&listersStop, 1)
	if !cl.Guard(20*time.Second, func() { listers.Wait() }) {
		return !stalled("a listing of the datasets with their sizes during the burst")
	}
	rec.Count("size_listings_during_bursts", atomic.LoadInt64(&sizeListings))
	if atomic.LoadInt32(&hung) == 1 {
		return !stalled("a membership or catalogue call during the burst")
	}
	progress := func(n *sim.Node, what string) bool {
		ok := cl.Guard(10*time.Second, func() { n.DM().List(ctx, false) })
		if !ok {
			stalled(fmt.Sprintf("List on node %d %s", n.Id, what))
			return false
		}
		rec.Count("progress_checks", 1)
		return true
	}
	for _, n := range cl.Nodes[:2] {
		if !progress(n, "after the burst") {
			return false
		}
	}
	// restart with existing datasets: the replay burst of membership and catalogue entries
	victim := cl.Nodes[rng.Intn(2)]
	// the partitions the victim hosts hold items and have compacted their logs into snapshots: on its way up the node
	// loads each partition's raft group from a stored snapshot (the index is rebuilt from it while the catalogue entry
	// that made the partition is being applied)
	if !victim.Dead() && victim.In != nil && c%2 == 0 {
		var live []*pb.Dataset
		cl.Guard(8*time.Second, func() { live, _ = victim.DM().List(ctx, false) })
		snapped := 0
		for _, d := range live {
			did := uuid.FromBytesOrNil(d.GetId())
			ds := victim.Dataset(did)
			if ds == nil {
				continue
			}
			wrote := 0
			cl.Guard(8*time.Second, func() {
				for i := 0; i < 6; i++ {
					vec := make([]float32, d.GetDimension())
					for j := range vec {
						vec[j] = float32(rng.NormFloat64())
					}
					if ds.Insert(ctx, uuid.NewV4(), vec, map[string]string{"k": fmt.Sprint(i)}) == nil {
						wrote++
					}
				}
			})
			if wrote == 0 {
				continue
			}
			for _, p := range d.GetPartitions() {
				pid := uuid.FromBytesOrNil(p.GetId())
				if victim.PartitionRaft(did, pid) != nil && cl.TriggerSnapshot(victim, pid, 0) {
					snapped++
				}
			}
		}
		if snapped > 0 {
			time.Sleep(100 * time.Millisecond)
			note(fmt.Sprintf("%d partition logs on node %d compacted into snapshots", snapped, victim.Id))
			rec.Count("restarts_with_stored_partition_snapshots", 1)
			rec.Count("partition_snapshots_stored_before_a_restart", int64(snapped))
		}
	}
	if !removals && !cl.Nodes[2].Dead() && cl.Nodes[2].In != nil {
		// node 3 is a member, so the others keep a quorum while the victim is down: the catalogue changes and both
		// compact their logs. The victim replays its own log first (it knows datasets) and is then sent the leader's
		// catalogue snapshot on top of them.
		cl.Crash(victim.Idx)
		cl.Teardown(victim.Idx)
		note(fmt.Sprintf("node %d down", victim.Id))
		via := cl.Nodes[1-victim.Idx]
		made := 0
		for i := 0; i < 3; i++ {
			cl.Guard(8*time.Second, func() {
				if _, err := via.DM().Create(ctx, &pb.Dataset{Dimension: 3, PartitionCount: 1, ReplicationFactor: 1}); err == nil {
					made++
				}
			})
		}
		for _, n := range []*sim.Node{via, cl.Nodes[2]} {
			cl.TriggerSnapshot(n, uuid.Nil, 0)
		}
		time.Sleep(100 * time.Millisecond)
		note(fmt.Sprintf("%d datasets created and the catalogue log compacted on the others while node %d was down", made, victim.Id))
		rec.Count("restarts_caught_up_by_catalogue_snapshot_over_known_datasets", 1)
	}
	// While the node is away and while it replays its catalogue (loading one partition group after the other), clients
	// keep writing through the other node: replicas there that followed the restarting node forward their proposals to
	// it, where the groups it has already loaded have no leader yet.
	var writersStop int32
	var writers sync.WaitGroup
	if c%4 >= 2 {
		otherNode := cl.Nodes[1-victim.Idx]
		var targets []*pb.Dataset
		cl.Guard(8*time.Second, func() { targets, _ = otherNode.DM().List(ctx, false) })
		for w := 0; w < 3 && len(targets) > 0; w++ {
			writers.Add(1)
			go func(w int) {
				defer writers.Done()
				wr := rand.New(rand.NewSource(int64(c)*101 + int64(w)))
				for atomic.LoadInt32(&writersStop) == 0 {
					d := targets[wr.Intn(len(targets))]
					ds := otherNode.Dataset(uuid.FromBytesOrNil(d.GetId()))
					if ds == nil || otherNode.Dead() {
						time.Sleep(5 * time.Millisecond)
						continue
					}
					vec := make([]float32, d.GetDimension())
					for j := range vec {
						vec[j] = float32(wr.NormFloat64())
					}
					wctx, cancel := context.WithTimeout(context.Background(), 300*time.Millisecond)
					ds.Insert(wctx, uuid.NewV4(), vec, nil)
					cancel()
				}
			}(w)
		}
		rec.Count("restarts_with_writes_arriving_through_the_other_node", 1)
	}
	defer func() {
		atomic.StoreInt32(&writersStop, 1)
		cl.Guard(10*time.Second, func() { writers.Wait() })
	}()
	note(fmt.Sprintf("restart node %d", victim.Id))
	if err := cl.Restart(victim.Idx); err != nil {
		if strings.Contains(err.Error(), "did not return") {
			return !stalled(fmt.Sprintf("restart of node %d", victim.Id))
		}
		rec.Inconclusive(fmt.Sprintf("%s: restart of node %d: %v", desc, victim.Id, err))
		return true
	}
	if !progress(victim, "after its restart") {
		return false
	}
	// the restarted node finishes applying its catalogue: a marker created now becomes visible on it
	other := cl.Nodes[1-victim.Idx]
	var marker uuid.UUID
	mk := cl.Guard(12*time.Second, func() {
		for attempt := 0; attempt < 8 && uuid.Equal(marker, uuid.Nil); attempt++ {
			if d, err := other.DM().Create(ctx, &pb.Dataset{Dimension: 2, PartitionCount: 1, ReplicationFactor: 1}); err == nil {
				marker = uuid.FromBytesOrNil(d.Meta().GetId())
			}
		}
	})
	if !mk {
		return !stalled("marker create after the restart")
	}
	if uuid.Equal(marker, uuid.Nil) {
		diag := ""
		for _, m := range cl.Nodes {
			if m.In != nil && m.In.ZeroGroup != nil {
				cl.Guard(2*time.Second, func() {
					st := m.In.ZeroGroup.VerifStatus()
					diag += fmt.Sprintf(" | node %d dead=%v book=%v zero{term=%d vote=%d lead=%d commit=%d applied=%d %s progress=%d}", m.Id, m.Dead(), m.In.ClusterConn.Nodes(), st.Term, st.Vote, st.Lead, st.Commit, st.Applied, st.RaftState, len(st.Progress))
				})
			}
		}
		// the catalogue does not advance: look for a wait-for cycle before giving up
		if name, ids, ok := persistentCycle(); ok {
			r := replay()
			r["goroutines"], r["diag"] = ids, diag
			rec.Violation("wedge:"+name, fmt.Sprintf("%s: no catalogue entry could be created after the restart; goroutines %v have been parked in the same wait (wait-for cycle, or an apply callback of the ready-loop) for more than a minute%s", desc, ids, diag), r)
			rec.Case(mon.Digest(desc, "wedged"), true)
			return true
		}
		rec.Inconclusive(desc + ": marker could not be created after the restart" + diag + fmt.Sprintf(" steps=%v", replay()["steps"]))
		return true
	}
	if cl.WaitFor(20*time.Second, func() bool { return victim.Dataset(marker) != nil }) != nil {
		if cl.Blocked > 0 {
			return !stalled(fmt.Sprintf("catalogue apply on restarted node %d", victim.Id))
		}
		rec.Inconclusive(fmt.Sprintf("%s: marker not visible on restarted node %d", desc, victim.Id))
		return true
	}
	rec.Count("restarts_completed", 1)
	rec.Case(mon.Digest(desc, replay()["steps"]), true)
	if rec.WantSample() {
		rec.Sample(replay())
	}
	_ = sort.Strings
	return true
}

// churnBehindLeaderlessGroup: a replica dies and is removed from the cluster
// while it led a two-replica partition group; the surviving replica's
// node-change handler then proposes the group's own membership change, which
// has to wait for a leader that can never be elected. Membership keeps
// changing afterwards (node 4 joins and leaves repeatedly): the node must keep
// applying its catalogue however many notifications pile up behind that handler.
func churnBehindLeaderlessGroup(rec *mon.Recorder, c int) bool {
	rng := rec.Rand("c18-churn", c)
	desc := fmt.Sprintf("case=%d nodes=4 churn_behind_leaderless_partition_group=true", c)
	rec.Current(desc)
	cl := sim.New(sim.Options{Nodes: 4, Dir: os.Getenv("VERIF_SCRATCH") + fmt.Sprintf("/c18-%d", c), TickEvery: 5 * time.Millisecond, Seed: rec.Seed() + int64(c), NoJoinBarrier: true})
	defer cl.Close()
	var steps []string
	t0 := time.Now()
	note := func(s string) { steps = append(steps, fmt.Sprintf("+%.1fs %s", time.Since(t0).Seconds(), s)) }
	replay := func() map[string]interface{} {
		return map[string]interface{}{"case": c, "seed": rec.Seed(), "desc": desc, "steps": append([]string(nil), steps...)}
	}
	stalled := func(what string) bool {
		if name, ids, ok := persistentCycle(); ok {
			r := replay()
			r["goroutines"], r["stalled"] = ids, what
			rec.Violation("wedge:"+name, fmt.Sprintf("%s: %s did not complete; goroutines %v have been parked in the same wait (wait-for cycle, or an apply callback of the ready-loop) for more than a minute", desc, what, ids), r)
			rec.Case(mon.Digest(desc, "wedged"), true)
			return true
		}
		if p := os.Getenv("VERIF_DUMP"); p != "" {
			buf := make([]byte, 16<<20)
			buf = buf[:runtime.Stack(buf, true)]
			os.WriteFile(p, buf, 0o644)
		}
		rec.Inconclusive(fmt.Sprintf("%s: %s did not complete within the watchdog, no persistent wait-for cycle found (steps %v)", desc, what, steps))
		return true
	}
	for i := 0; i < 3; i++ {
		if err := cl.StartNode(i); err != nil {
			rec.Inconclusive(fmt.Sprintf("%s: node %d: %v", desc, i+1, err))
			return true
		}
		if i == 0 {
			cl.WaitFor(20*time.Second, func() bool { return cl.Nodes[0].ZeroLeader() != 0 })
		}
		if cl.WaitMembership(i+1, 20*time.Second) != nil {
			rec.Inconclusive(fmt.Sprintf("%s: membership of %d nodes not reached", desc, i+1))
			return true
		}
	}
	// a partition on two replicas [S, V] with V != node 1 (node 1 is the join contact)
	var ds, pid uuid.UUID
	var S, V *sim.Node
	for attempt := 0; attempt < 12 && V == nil; attempt++ {
		id, _, err := cl.CreateDataset(attempt%3, 2, 1, 2, pb.Space_Euclidean)
		if err != nil {
			continue
		}
		d := cl.Nodes[0].Dataset(id)
		if d == nil {
			continue
		}
		for _, p := range d.VerifPartitionIds() {
			ids := d.VerifPartitionNodeIds(p)
			if len(ids) == 2 && ids[1] != 1 {
				ds, pid = id, p
				S, V = cl.Nodes[ids[0]-1], cl.Nodes[ids[1]-1]
			}
		}
	}
	if V == nil {
		rec.Inconclusive(desc + ": no partition placed on [S, V] with V != node 1 in 12 datasets")
		return true
	}
	note(fmt.Sprintf("dataset with one partition on nodes [%d %d]", S.Id, V.Id))
	// V leads the partition group when it dies
	vg, sg := V.PartitionRaft(ds, pid), S.PartitionRaft(ds, pid)
	if vg == nil || sg == nil {
		rec.Inconclusive(desc + ": partition group not loaded on both replicas")
		return true
	}
	if cl.WaitFor(20*time.Second, func() bool {
		if sg.VerifStatus().Lead == V.Id {
			return true
		}
		cl.Guard(2*time.Second, func() { vg.VerifCampaign() })
		time.Sleep(50 * time.Millisecond)
		return false
	}) != nil {
		rec.Inconclusive(fmt.Sprintf("%s: node %d did not become leader of the partition group", desc, V.Id))
		return true
	}
	note(fmt.Sprintf("node %d leads the partition group", V.Id))
	cl.Crash(V.Idx)
	cl.Teardown(V.Idx)
	note(fmt.Sprintf("node %d dies", V.Id))
	var other *sim.Node
	for _, n := range cl.Nodes[:3] {
		if n != S && n != V {
			other = n
		}
	}
	// A late message of the dead replica: a proposal it forwarded to its peer just before it died arrives once the
	// peer's election timeout has passed. The group has no leader and never will, so the transport handler that
	// received it waits - which must not keep anything else on the node waiting.
	time.Sleep(300 * time.Millisecond)
	if cc, derr := grpc.Dial(S.Addr, grpc.WithInsecure()); derr == nil {
		m := raftpb.Message{Type: raftpb.MsgProp, From: V.Id, To: S.Id, Entries: []raftpb.Entry{{}}}
		if mb, merr := m.Marshal(); merr == nil {
			lctx, cancel := context.WithTimeout(context.Background(), 300*time.Millisecond)
			pb.NewRaftTransportClient(cc).Receive(lctx, &pb.RaftMessage{GroupId: pid.Bytes(), Message: mb})
			cancel()
			note(fmt.Sprintf("a proposal node %d had forwarded reaches node %d, whose group has no leader", V.Id, S.Id))
			rec.Count("late_forwarded_proposals_delivered_to_a_leaderless_group", 1)
		}
		cc.Close()
	}
	var rmErr error
	if !cl.Guard(20*time.Second, func() { rmErr = cl.Nodes[0].In.NodesManager.RemoveNode(V.Id) }) {
		return !stalled(fmt.Sprintf("removal of dead node %d", V.Id))
	}
	if rmErr != nil {
		rec.Inconclusive(fmt.Sprintf("%s: removal of node %d: %v", desc, V.Id, rmErr))
		return true
	}
	note(fmt.Sprintf("node %d removed from the cluster; node %d's handler proposes the partition group's own change (no leader can be elected)", V.Id, S.Id))
	rec.Count("leaderless_group_histories", 1)
	ctx := context.Background()
	// bounded progress: once membership stops changing, a new catalogue entry
	// is created and applied on both live members within the bound (each
	// queued notification may cost the handler one proposal timeout)
	marker := func(what string, bound time.Duration) bool {
		var id uuid.UUID
		deadline := time.Now().Add(bound)
		for uuid.Equal(id, uuid.Nil) && time.Now().Before(deadline) {
			cl.Guard(10*time.Second, func() {
				if d, err := other.DM().Create(ctx, &pb.Dataset{Dimension: 2, PartitionCount: 1, ReplicationFactor: 1}); err == nil {
					id = uuid.FromBytesOrNil(d.Meta().GetId())
				}
			})
			if uuid.Equal(id, uuid.Nil) {
				time.Sleep(200 * time.Millisecond)
			}
		}
		if uuid.Equal(id, uuid.Nil) {
			return !stalled("catalogue create " + what)
		}
		left := time.Until(deadline)
		if left < 20*time.Second {
			left = 20 * time.Second
		}
		if cl.WaitFor(left, func() bool { return S.Dataset(id) != nil && other.Dataset(id) != nil }) != nil {
			return !stalled(fmt.Sprintf("catalogue apply on node %d %s", S.Id, what))
		}
		note("catalogue entry created and applied " + what)
		rec.Count("progress_checks", 1)
		return true
	}
	// a dataset that both live members host (two replicas on two members): each of them loads a partition group now
	cl.Guard(10*time.Second, func() {
		if _, err := other.DM().Create(ctx, &pb.Dataset{Dimension: 2, PartitionCount: 2, ReplicationFactor: 2}); err == nil {
			note("a dataset with two replicas per partition created: both live members load partition groups")
		}
	})
	if !marker("after the removal", 40*time.Second) {
		return false
	}
	cycles := 6 + rng.Intn(3) // two notifications each: more than the channel holds
	changes := 0
	for k := 0; k < cycles; k++ {
		// a refused or slow change ends the churn; the verdict is progress afterwards
		if err := cl.StartNode(3); err != nil {
			note("join of node 4 failed: " + err.Error())
			cl.Crash(3)
			cl.Teardown(3)
			break
		}
		note("node 4 joined")
		changes++
		var err error
		if !cl.Guard(30*time.Second, func() { err = other.In.NodesManager.RemoveNode(4) }) {
			note("removal of node 4 did not return")
			break
		}
		note(fmt.Sprintf("node 4 removed err=%v", err))
		cl.Crash(3)
		cl.Teardown(3)
		if err != nil {
			break
		}
		changes++
	}
	rec.Count("membership_changes_behind_blocked_handler", int64(changes))
	rec.Max("most_changes_behind_one_blocked_handler", int64(changes))
	if !marker(fmt.Sprintf("after %d membership changes behind the blocked handler", changes), 150*time.Second) {
		return false
	}
	// The dataset whose partition group cannot elect a leader is deleted: its replica on the surviving node is
	// unloaded (group stopped, log deleted) while the node-change handler may still be inside a proposal to that
	// group. The catalogue must go on being applied afterwards.
	var delErr error
	if !cl.Guard(30*time.Second, func() { delErr = other.DM().Delete(ctx, ds) }) {
		return !stalled("deletion of the dataset whose partition group has no leader")
	}
	note(fmt.Sprintf("dataset of the leaderless partition group deleted err=%v", delErr))
	if delErr == nil {
		rec.Count("leaderless_group_datasets_deleted", 1)
		if cl.WaitFor(40*time.Second, func() bool { return S.Dataset(ds) == nil && other.Dataset(ds) == nil }) != nil {
			return !stalled("catalogue apply of the deletion on both live members")
		}
	}
	if !marker("after the dataset of the leaderless partition group was deleted", 60*time.Second) {
		return false
	}
	for _, n := range []*sim.Node{S, other} {
		if !cl.Guard(10*time.Second, func() { n.DM().List(ctx, false) }) {
			return !stalled(fmt.Sprintf("List on node %d", n.Id))
		}
		rec.Count("progress_checks", 1)
	}
	rec.Case(mon.Digest(desc, S.Id, V.Id, cycles), true)
	if rec.WantSample() {
		rec.Sample(replay())
	}
	return true
}

// notificationContract monitors the address book's change notifications on
// their own (no servers): the membership log's apply calls AddNode/RemoveNode
// and must never wait for the subscriber, which may be stalled for as long as
// it likes, take changes one at a time, or in bursts. Seeded scripts
// interleave bursts of changes with subscriber steps; every call runs under a
// watchdog. A call that is still parked after the watchdog while the
// subscriber is stalled is a violation if the dump shows it parked in a
// channel send below the notification code (the sender has nothing else to
// wait for: the locks it takes are free). Delivery is checked too: every
// change arrives exactly once, in order.
func notificationContract(rec *mon.Recorder, c int) bool {
	rng := rec.Rand("c18-notify", c)
	desc := fmt.Sprintf("case=%d notification_contract=true", c)
	rec.Current(desc)
	rounds := rec.N(400, 3000)
	for round := 0; round < rounds; round++ {
		conn, err := cluster.NewConn(1, "self", "")
		if err != nil {
			rec.Inconclusive(desc + ": " + err.Error())
			return true
		}
		ch := conn.NodeChangesNotifications()
		var script []string
		type change struct {
			add bool
			id  uint64
		}
		var sent []change
		received := 0
		present := map[uint64]bool{}
		nextId := uint64(100)
		fail := func(sym, detail string) bool {
			rec.Violation("notify:"+sym, fmt.Sprintf("%s round=%d: %s | script: %s", desc, round, detail, strings.Join(script, " ")), map[string]interface{}{"case": c, "round": round, "seed": rec.Seed(), "script": script})
			rec.Case(mon.Digest(desc, "failed"), true)
			return true
		}
		take := func(n int) (string, bool) {
			for i := 0; i < n; i++ {
				select {
				case ev, ok := <-ch:
					if !ok || ev == nil {
						return "subscription closed", false
					}
					if received >= len(sent) {
						return fmt.Sprintf("change %+v delivered but never sent", *ev), false
					}
					want := sent[received]
					gotAdd := ev.Type == cluster.NodesChangeAddNode
					if gotAdd != want.add || ev.NodeId != want.id {
						return fmt.Sprintf("delivery %d is {add=%v id=%d}, sent {add=%v id=%d}", received, gotAdd, ev.NodeId, want.add, want.id), false
					}
					received++
				case <-time.After(20 * time.Second):
					return fmt.Sprintf("change %d of %d sent was not delivered within 20 s", received, len(sent)), false
				}
			}
			return "", true
		}
		// half of the scripts walk around the channel's capacity in single
		// steps (fill to 8..14 pending, then one change or one delivery at a
		// time); the others mix bursts and deliveries freely
		boundary := round%2 == 0
		steps := 6 + rng.Intn(20)
		if boundary {
			steps = 12 + rng.Intn(30)
		}
		for st := 0; st < steps; st++ {
			sendNow := rng.Intn(3) > 0
			if boundary {
				sendNow = st == 0 || rng.Intn(2) == 0
			}
			if sendNow {
				// a burst of changes while the subscriber is stalled
				burst := 1 + rng.Intn(14)
				if rng.Intn(4) == 0 {
					burst = 1
				}
				if boundary {
					burst = 1
					if st == 0 {
						burst = 8 + rng.Intn(7)
					}
				}
				script = append(script, fmt.Sprintf("send%d", burst))
				for b := 0; b < burst; b++ {
					var ch change
					if len(present) > 0 && rng.Intn(3) == 0 {
						var oldest uint64
						for id := range present {
							if oldest == 0 || id < oldest {
								oldest = id
							}
						}
						ch = change{false, oldest}
						delete(present, ch.id)
					} else {
						nextId++
						ch = change{true, nextId}
						present[ch.id] = true
					}
					sent = append(sent, ch)
					done := make(chan struct{})
					go func() {
						defer close(done)
						if ch.add {
							conn.AddNode(ch.id, fmt.Sprintf("addr-%d", ch.id))
						} else {
							conn.RemoveNode(ch.id)
						}
					}()
					select {
					case <-done:
						rec.Count("membership_calls_with_stalled_subscriber", 1)
					case <-time.After(15 * time.Second):
						// structural confirmation: parked in a channel send below the notification code
						where := ""
						for _, g := range dump() {
							if g.state == "chan send" && strings.Contains(g.text, "anndb/cluster.(*Conn).") && (strings.Contains(g.text, "cluster.(*Conn).AddNode") || strings.Contains(g.text, "cluster.(*Conn).RemoveNode")) {
								if m := repoFrame.FindStringSubmatch(g.text); m != nil {
									where = m[1]
								}
							}
						}
						if where == "" {
							rec.Inconclusive(fmt.Sprintf("%s round=%d: a membership call did not return within 15 s but is not parked in a send (pending %d)", desc, round, len(sent)-received))
							return true
						}
						return fail("membership-change-waits-for-subscriber", fmt.Sprintf("change %d (pending behind the stalled subscriber: %d) is parked in a channel send in %s", len(sent), len(sent)-received-1, where))
					}
				}
				rec.Max("most_changes_pending_behind_stalled_subscriber", int64(len(sent)-received))
			} else {
				// the subscriber takes a few (often exactly one)
				pending := len(sent) - received
				if pending == 0 {
					continue
				}
				n := 1
				if !boundary && rng.Intn(2) == 0 {
					n = 1 + rng.Intn(pending)
				}
				script = append(script, fmt.Sprintf("take%d", n))
				if msg, ok := take(n); !ok {
					return fail("delivery", msg)
				}
			}
		}
		script = append(script, "drain")
		if msg, ok := take(len(sent) - received); !ok {
			return fail("delivery", msg)
		}
		select {
		case ev := <-ch:
			if ev != nil {
				return fail("delivery", fmt.Sprintf("extra change {type=%v id=%d} after all %d were delivered", ev.Type, ev.NodeId, len(sent)))
			}
		case <-time.After(20 * time.Millisecond):
		}
		rec.Count("notification_scripts", 1)
		rec.Count("changes_delivered_in_order", int64(received))
		conn.Close()
	}
	rec.Count("progress_checks", 1)
	rec.Case(mon.Digest(desc), true)
	return true
}
