// C11 — write acknowledgements are truthful and reach the right caller.
package c11

import (
	"context"
	"fmt"
	"google.golang.org/grpc"
	"os"
	"sync"
	"sync/atomic"
	"testing"
	"time"

	"github.com/coreos/etcd/raft/raftpb"
	"github.com/golang/protobuf/proto"
	"github.com/marekgalovic/anndb/index"
	pb "github.com/marekgalovic/anndb/protobuf"
	"github.com/marekgalovic/anndb/storage"
	"github.com/marekgalovic/anndb/utils"
	uuid "github.com/satori/go.uuid"
	"verif/harness/hx"
	"verif/harness/mon"
	"verif/harness/sim"
)

func TestC11(t *testing.T) {
	rec := mon.Open("C11")
	defer rec.Finish(t)
	n := rec.N(5, 60)
	for c := 0; c < n; c++ {
		if rec.Mine(c) {
			scenario(rec, c)
		}
	}
	m := rec.N(2, 16)
	for c := 0; c < m; c++ {
		if rec.Mine(c + 3) {
			unreachableOwner(rec, c)
		}
	}
	q := rec.N(3, 16)
	for c := 0; c < q; c++ {
		if rec.Mine(c + 1) {
			noQuorum(rec, c)
		}
		if rec.Mine(c + 2) {
			unloadedWhilePending(rec, c)
		}
		if rec.Mine(c + 4) {
			refusedWriteWithAReplicaDown(rec, c)
		}
		if rec.Mine(c + 5) {
			writesDuringRestartReplay(rec, c)
		}
	}
}

// Writes that arrive while a node is coming back: the node replays its partition's log (entries its earlier
// incarnation proposed, with their callers long gone) while new callers already wait for the outcome of their own
// proposals. Every outcome goes to its own caller: an update of an id that was never inserted is refused whenever it
// is answered at all, and an acknowledged insert is in the partition afterwards.
func writesDuringRestartReplay(rec *mon.Recorder, c int) {
	rng := rec.Rand("c11-replay", c)
	history := 150 + rng.Intn(250)
	desc := fmt.Sprintf("writes-during-restart-replay case=%d nodes=1 entries-to-replay=%d", c, history)
	rec.Current(desc)
	cl := sim.New(sim.Options{Nodes: 1, Dir: os.Getenv("VERIF_SCRATCH") + fmt.Sprintf("/c11w-%d", c), TickEvery: 10 * time.Millisecond, Seed: rec.Seed() + int64(c)})
	defer cl.Close()
	if err := cl.Start(); err != nil {
		rec.Inconclusive(desc + ": cluster start: " + err.Error())
		return
	}
	dsId, meta, err := cl.CreateDataset(0, 3, 1, 1, pb.Space_Euclidean)
	if err != nil {
		rec.Inconclusive(desc + ": create dataset: " + err.Error())
		return
	}
	pid := uuid.FromBytesOrNil(meta.Partitions[0].Id)
	ctx := context.Background()
	n0 := cl.Nodes[0]
	for i := 0; i < history; i++ {
		cctx, cancel := context.WithTimeout(ctx, 5*time.Second)
		err := n0.Dataset(dsId).Insert(cctx, hx.Id(c*100000+i), []float32{float32(i), 1, 2}, nil)
		cancel()
		if err != nil {
			rec.Inconclusive(fmt.Sprintf("%s: insert: %v", desc, err))
			return
		}
	}
	replay := map[string]interface{}{"case": c, "seed": rec.Seed(), "desc": desc}
	var stop int32
	var wg sync.WaitGroup
	var answered, refused int64
	var ackedInserts sync.Map
	var bad atomic.Value
	for w := 0; w < 6; w++ {
		wg.Add(1)
		go func(w int) {
			defer wg.Done()
			for k := 0; atomic.LoadInt32(&stop) == 0; k++ {
				ds := n0.Dataset(dsId)
				if n0.Dead() || ds == nil {
					time.Sleep(200 * time.Microsecond)
					continue
				}
				id := hx.Id(c*100000 + 50000 + w*5000 + k)
				cctx, cancel := context.WithTimeout(ctx, 2*time.Second)
				var err error
				func() {
					defer func() {
						if p := recover(); p != nil {
							err = fmt.Errorf("panic: %v", p) // a server half torn down by the restart
						}
					}()
					if k%3 == 2 {
						if err = ds.Insert(cctx, id, []float32{9, 9, 9}, nil); err == nil {
							ackedInserts.Store(id, true)
						}
						return
					}
					err = ds.Update(cctx, id, []float32{9, 9, 9}, nil)
					if err == nil && bad.Load() == nil {
						bad.Store(fmt.Sprintf("an update of id %s, which was never inserted, was acknowledged", id))
					}
					if err != nil && stringsContain(err.Error(), "not found") {
						atomic.AddInt64(&refused, 1)
					}
				}()
				cancel()
				atomic.AddInt64(&answered, 1)
			}
		}(w)
	}
	time.Sleep(20 * time.Millisecond)
	rerr := cl.Restart(0)
	// the writers go on for a little after the node is back
	time.Sleep(300 * time.Millisecond)
	atomic.StoreInt32(&stop, 1)
	wg.Wait()
	if rerr != nil {
		rec.Inconclusive(fmt.Sprintf("%s: restart: %v", desc, rerr))
		return
	}
	rec.Count("writes_answered_around_a_restart", atomic.LoadInt64(&answered))
	rec.Count("refused_writes_answered_after_a_restart", atomic.LoadInt64(&refused))
	if b := bad.Load(); b != nil {
		rec.Violation("ack:success-for-a-refused-write:update-of-an-absent-id-during-restart-replay", fmt.Sprintf("%s: %s while the node was replaying its partition's log", desc, b), replay)
		return
	}
	// every acknowledged insert is in the partition once the node has applied its log
	var idx *index.Hnsw
	cl.WaitFor(15*time.Second, func() bool {
		idx = cl.Nodes[0].PartitionIndex(dsId, pid)
		g := cl.Nodes[0].PartitionRaft(dsId, pid)
		if idx == nil || g == nil {
			return false
		}
		st := g.VerifStatus()
		return st.Lead != 0 && st.Applied == st.Commit
	})
	if idx == nil {
		rec.Inconclusive(desc + ": partition not loaded after the restart")
		return
	}
	missing := ""
	ackedInserts.Range(func(k, _ interface{}) bool {
		if _, err := idx.Get(k.(uuid.UUID)); err != nil {
			missing = k.(uuid.UUID).String()
			return false
		}
		return true
	})
	if missing != "" {
		rec.Violation("ack:acknowledged-insert-not-applied:during-restart-replay", fmt.Sprintf("%s: the insert of %s was acknowledged while the node was coming back, and the partition does not hold it", desc, missing), replay)
		return
	}
	rec.Case(mon.Digest(desc), true)
}

// A write that the partition refuses (an insert of an id it holds, a removal or update of an id it does not hold) is
// not applied, so it must not be acknowledged - also when it enters through a node that does not host the partition
// and one of the three replicas is down, so that the entry node's first choice of replica may be unreachable while
// another one answers.
func refusedWriteWithAReplicaDown(rec *mon.Recorder, c int) {
	rng := rec.Rand("c11-refused", c)
	desc := fmt.Sprintf("refused-write-with-a-replica-down case=%d nodes=4 partitions=1 replication=3", c)
	rec.Current(desc)
	cl := sim.New(sim.Options{Nodes: 4, Dir: os.Getenv("VERIF_SCRATCH") + fmt.Sprintf("/c11r-%d", c), TickEvery: 10 * time.Millisecond, Seed: rec.Seed() + int64(c)})
	defer cl.Close()
	if err := cl.Start(); err != nil {
		rec.Inconclusive(desc + ": cluster start: " + err.Error())
		return
	}
	dsId, meta, err := cl.CreateDataset(0, 3, 1, 3, pb.Space_Euclidean)
	if err != nil || len(meta.Partitions) != 1 || len(meta.Partitions[0].NodeIds) != 3 {
		rec.Inconclusive(fmt.Sprintf("%s: create dataset: %v", desc, err))
		return
	}
	hosts := map[uint64]bool{}
	for _, id := range meta.Partitions[0].NodeIds {
		hosts[id] = true
	}
	var entry *sim.Node
	var replicas []*sim.Node
	for _, n := range cl.Nodes {
		if hosts[n.Id] {
			replicas = append(replicas, n)
		} else {
			entry = n
		}
	}
	if entry == nil {
		rec.Inconclusive(desc + ": no node without a replica")
		return
	}
	ctx := context.Background()
	held := []uuid.UUID{}
	for i := 0; i < 6; i++ {
		id := hx.Id(c*100000 + 70000 + i)
		cctx, cancel := context.WithTimeout(ctx, 5*time.Second)
		err := entry.Dataset(dsId).Insert(cctx, id, []float32{float32(i), 2, 3}, nil)
		cancel()
		if err != nil {
			rec.Inconclusive(fmt.Sprintf("%s: insert with every replica up: %v", desc, err))
			return
		}
		held = append(held, id)
	}
	down := replicas[rng.Intn(3)]
	cl.Crash(down.Idx)
	cl.Teardown(down.Idx) // its port is closed: calls to it fail at the connection
	replay := map[string]interface{}{"case": c, "seed": rec.Seed(), "desc": desc, "entry": entry.Id, "replica_down": down.Id}
	cc, derr := grpc.Dial(entry.Addr, grpc.WithInsecure())
	if derr != nil {
		rec.Inconclusive(desc + ": dial: " + derr.Error())
		return
	}
	defer cc.Close()
	dmc := pb.NewDataManagerClient(cc)
	for round := 0; round < 24; round++ {
		op := []string{"insert-of-a-held-id", "remove-of-an-absent-id", "update-of-an-absent-id"}[round%3]
		absent := hx.Id(c*100000 + 80000 + round)
		cctx, cancel := context.WithTimeout(ctx, 5*time.Second)
		var err error
		viaGrpc := round%2 == 1
		switch {
		case op == "insert-of-a-held-id" && viaGrpc:
			_, err = dmc.Insert(cctx, &pb.InsertRequest{DatasetId: dsId.Bytes(), Id: held[round%len(held)].Bytes(), Value: []float32{9, 9, 9}})
		case op == "insert-of-a-held-id":
			err = entry.Dataset(dsId).Insert(cctx, held[round%len(held)], []float32{9, 9, 9}, nil)
		case op == "remove-of-an-absent-id" && viaGrpc:
			_, err = dmc.Remove(cctx, &pb.RemoveRequest{DatasetId: dsId.Bytes(), Id: absent.Bytes()})
		case op == "remove-of-an-absent-id":
			err = entry.Dataset(dsId).Remove(cctx, absent)
		case viaGrpc:
			_, err = dmc.Update(cctx, &pb.UpdateRequest{DatasetId: dsId.Bytes(), Id: absent.Bytes(), Value: []float32{9, 9, 9}})
		default:
			err = entry.Dataset(dsId).Update(cctx, absent, []float32{9, 9, 9}, nil)
		}
		cancel()
		rec.Count("refused_writes_with_a_replica_down", 1)
		if err == nil {
			rec.Violation("ack:success-for-a-refused-write:"+op, fmt.Sprintf("%s: %s through node %d (which hosts no replica; replica on node %d is down) was acknowledged although the partition refuses it and nothing was applied", desc, op, entry.Id, down.Id), replay)
			return
		}
	}
	// what the partition holds is what was acknowledged: the six items, unchanged
	for _, n := range replicas {
		if n == down {
			continue
		}
		if idx := n.PartitionIndex(dsId, uuid.FromBytesOrNil(meta.Partitions[0].Id)); idx != nil && idx.Len() != len(held) {
			rec.Violation("ack:refused-write-applied", fmt.Sprintf("%s: the replica on node %d holds %d items, %d were acknowledged", desc, n.Id, idx.Len(), len(held)), replay)
			return
		}
	}
	rec.Case(mon.Digest(desc), true)
}

// Writes that raft has accepted but cannot commit (the only other replica is down) are still waiting for their
// outcome when the replica is unloaded - its dataset is deleted through the membership-and-catalogue group, which
// still has a quorum. They were never committed or applied: each must return an error.
func unloadedWhilePending(rec *mon.Recorder, c int) {
	desc := fmt.Sprintf("unloaded-while-pending case=%d nodes=3 partitions=1 replication=2", c)
	rec.Current(desc)
	cl := sim.New(sim.Options{Nodes: 3, Dir: os.Getenv("VERIF_SCRATCH") + fmt.Sprintf("/c11u-%d", c), TickEvery: 10 * time.Millisecond, Seed: rec.Seed() + int64(c)})
	defer cl.Close()
	if err := cl.Start(); err != nil {
		rec.Inconclusive(desc + ": cluster start: " + err.Error())
		return
	}
	dsId, meta, err := cl.CreateDataset(0, 3, 1, 2, pb.Space_Euclidean)
	if err != nil {
		rec.Inconclusive(desc + ": create dataset: " + err.Error())
		return
	}
	pid := uuid.FromBytesOrNil(meta.Partitions[0].Id)
	ctx := context.Background()
	replicas := map[uint64]bool{}
	for _, id := range meta.Partitions[0].NodeIds {
		replicas[id] = true
	}
	var third *sim.Node
	for _, n := range cl.Nodes {
		if !replicas[n.Id] {
			third = n
		}
	}
	if third == nil || len(replicas) != 2 {
		rec.Inconclusive(desc + ": unexpected placement")
		return
	}
	for i := 0; i < 3; i++ {
		if err := third.Dataset(dsId).Insert(ctx, hx.Id(c*1000+i), []float32{1, 2, 3}, nil); err != nil {
			rec.Inconclusive(desc + ": setup insert: " + err.Error())
			return
		}
	}
	var leader *sim.Node
	cl.WaitFor(10*time.Second, func() bool {
		for _, n := range cl.Nodes {
			if g := n.PartitionRaft(dsId, pid); g != nil && g.VerifStatus().RaftState.String() == "StateLeader" {
				leader = n
				return true
			}
		}
		return false
	})
	if leader == nil {
		rec.Inconclusive(desc + ": no partition leader")
		return
	}
	var other *sim.Node
	for _, n := range cl.Nodes {
		if replicas[n.Id] && n != leader {
			other = n
		}
	}
	cl.Crash(other.Idx)
	cl.Teardown(other.Idx)
	replay := map[string]interface{}{"case": c, "seed": rec.Seed(), "desc": desc, "leader": leader.Id, "down": other.Id}
	d := leader.Dataset(dsId)
	var wg sync.WaitGroup
	for k, op := range []string{"insert", "update", "remove"} {
		wg.Add(1)
		go func(k int, op string) {
			defer wg.Done()
			id := hx.Id(c*1000 + 100 + k)
			if op != "insert" {
				id = hx.Id(c*1000 + k%3)
			}
			cctx, cancel := context.WithTimeout(ctx, 12*time.Second)
			defer cancel()
			var err error
			func() {
				defer func() {
					if p := recover(); p != nil {
						err = fmt.Errorf("panic: %v", p)
					}
				}()
				switch op {
				case "insert":
					err = d.Insert(cctx, id, []float32{9, 9, 9}, nil)
				case "update":
					err = d.Update(cctx, id, []float32{8, 8, 8}, nil)
				default:
					err = d.Remove(cctx, id)
				}
			}()
			rec.Count("writes_pending_when_the_replica_was_unloaded", 1)
			if err == nil {
				rec.Violation("ack:success-after-replica-unloaded:"+op, fmt.Sprintf("%s: %s on the partition leader (node %d) was accepted by raft but could not be committed (node %d is down); the replica was unloaded while the caller waited, and the call returned success", desc, op, leader.Id, other.Id), replay)
			}
		}(k, op)
	}
	time.Sleep(400 * time.Millisecond) // the writes are proposed and wait for a commit that cannot come
	var delErr error
	if !cl.Guard(20*time.Second, func() { delErr = third.DM().Delete(ctx, dsId) }) || delErr != nil {
		rec.Inconclusive(fmt.Sprintf("%s: the dataset could not be deleted: %v", desc, delErr))
	}
	wg.Wait()
	rec.Case(mon.Digest(desc), true)
}

// "if the proposal is not applied in time it returns an error": the partition
// group's leader loses its quorum (the other replica is down), so a proposal is
// accepted by raft but can be neither committed nor applied. A caller whose own
// deadline is longer than the proposal timeout must get an error, and nothing
// may be reported as written.
func noQuorum(rec *mon.Recorder, c int) {
	rng := rec.Rand("c11-q", c)
	desc := fmt.Sprintf("no-quorum case=%d nodes=2 partitions=1 replication=2", c)
	rec.Current(desc)
	cl := sim.New(sim.Options{Nodes: 2, Dir: os.Getenv("VERIF_SCRATCH") + fmt.Sprintf("/c11q-%d", c), TickEvery: 10 * time.Millisecond, Seed: rec.Seed() + int64(c)})
	defer cl.Close()
	if err := cl.Start(); err != nil {
		rec.Inconclusive(desc + ": cluster start: " + err.Error())
		return
	}
	dsId, meta, err := cl.CreateDataset(0, 3, 1, 2, pb.Space_Euclidean)
	if err != nil {
		rec.Inconclusive(desc + ": create dataset: " + err.Error())
		return
	}
	pid := uuid.FromBytesOrNil(meta.Partitions[0].Id)
	ctx := context.Background()
	// a few acknowledged writes first
	for i := 0; i < 3; i++ {
		if err := cl.Nodes[rng.Intn(2)].Dataset(dsId).Insert(ctx, hx.Id(c*1000+i), []float32{1, 2, 3}, nil); err != nil {
			rec.Inconclusive(desc + ": setup insert: " + err.Error())
			return
		}
	}
	var leader *sim.Node
	cl.WaitFor(10*time.Second, func() bool {
		for _, n := range cl.Nodes {
			if g := n.PartitionRaft(dsId, pid); g != nil && g.VerifStatus().RaftState.String() == "StateLeader" {
				leader = n
				return true
			}
		}
		return false
	})
	if leader == nil {
		rec.Inconclusive(desc + ": no partition leader")
		return
	}
	other := cl.Nodes[1-leader.Idx]
	cl.Crash(other.Idx)
	cl.Teardown(other.Idx)
	replay := map[string]interface{}{"case": c, "seed": rec.Seed(), "desc": desc, "leader": leader.Id}
	var wg sync.WaitGroup
	for k, op := range []string{"insert", "update", "remove", "batch-insert"} {
		if op == "batch-insert" {
			wg.Wait() // a failing batch path may end the process: verdicts of the single forms first
			rec.Checkpoint()
		}
		wg.Add(1)
		go func(k int, op string) {
			defer wg.Done()
			id := hx.Id(c*1000 + 100 + k)
			if op == "update" || op == "remove" {
				id = hx.Id(c*1000 + k%3)
			}
			cctx, cancel := context.WithTimeout(ctx, 12*time.Second) // longer than the 5 s proposal timeout
			defer cancel()
			d := leader.Dataset(dsId)
			var err error
			t0 := time.Now()
			func() {
				defer func() {
					if p := recover(); p != nil {
						err = fmt.Errorf("panic: %v", p)
						rec.Violation("no-quorum:panic:"+op, fmt.Sprintf("%s: %s panicked: %v", desc, op, p), replay)
					}
				}()
				switch op {
				case "insert":
					err = d.Insert(cctx, id, []float32{9, 9, 9}, nil)
				case "update":
					err = d.Update(cctx, id, []float32{8, 8, 8}, nil)
				case "remove":
					err = d.Remove(cctx, id)
				default:
					var errs map[uuid.UUID]error
					errs, err = d.BatchInsert(cctx, []*pb.BatchItem{{Id: id.Bytes(), Value: []float32{7, 7, 7}}})
					if err == nil && errs[id] != nil {
						err = errs[id]
					}
				}
			}()
			rec.Count("no_quorum_writes", 1)
			if err == nil {
				rec.Violation("ack:success-without-quorum:"+op, fmt.Sprintf("%s: %s on the partition leader (node %d) returned success after %v although the only other replica is down and nothing can be committed", desc, op, leader.Id, time.Since(t0).Round(time.Millisecond)), replay)
			}
		}(k, op)
	}
	wg.Wait()
	rec.Case(mon.Digest(desc), true)
}

// (b) a write whose owner partition cannot be reached must fail. The owner
// becomes unreachable through the public API: its only hosting node is removed
// from the cluster, so the other nodes forget its address while the partition
// still lists it.
func unreachableOwner(rec *mon.Recorder, c int) {
	rng := rec.Rand("c11-b", c)
	nodes, parts := 3, 4+rng.Intn(4)
	desc := fmt.Sprintf("unreachable-owner case=%d nodes=%d partitions=%d replication=1", c, nodes, parts)
	rec.Current(desc)
	cl := sim.New(sim.Options{Nodes: nodes, Dir: os.Getenv("VERIF_SCRATCH") + fmt.Sprintf("/c11b-%d", c), TickEvery: 10 * time.Millisecond, Seed: rec.Seed() + int64(c)})
	defer cl.Close()
	if err := cl.Start(); err != nil {
		rec.Inconclusive(desc + ": cluster start: " + err.Error())
		return
	}
	dsId, meta, err := cl.CreateDataset(0, 3, uint32(parts), 1, pb.Space_Euclidean)
	if err != nil {
		rec.Inconclusive(desc + ": create dataset: " + err.Error())
		return
	}
	// pick a victim that hosts at least one partition and is not the entry node
	hosted := map[uint64][]int{}
	for i, p := range meta.Partitions {
		for _, nid := range p.NodeIds {
			hosted[nid] = append(hosted[nid], i)
		}
	}
	victim := uint64(0)
	for _, cand := range []uint64{3, 2} {
		if len(hosted[cand]) > 0 {
			victim = cand
			break
		}
	}
	if victim == 0 {
		rec.Inconclusive(desc + ": every partition landed on the entry node")
		return
	}
	entry := cl.Nodes[0]
	if err := entry.In.NodesManager.RemoveNode(victim); err != nil {
		rec.Inconclusive(desc + ": RemoveNode: " + err.Error())
		return
	}
	if cl.WaitFor(10*time.Second, func() bool { _, ok := entry.In.ClusterConn.Nodes()[victim]; return !ok }) != nil {
		rec.Inconclusive(desc + ": removal not applied on the entry node")
		return
	}
	ctx := context.Background()
	replay := map[string]interface{}{"case": c, "seed": rec.Seed(), "desc": desc, "victim": victim, "partitions_on_victim": hosted[victim]}
	tried := 0
	for i := 0; i < 4000 && tried < 9; i++ {
		id := hx.Id(c*100000 + 50000 + i)
		p := int(utils.UuidMod(id, uint64(parts)))
		onVictim := false
		for _, q := range hosted[victim] {
			if q == p {
				onVictim = true
			}
		}
		if !onVictim {
			continue
		}
		op := []string{"insert", "update", "remove"}[tried%3]
		tried++
		cctx, cancel := context.WithTimeout(ctx, 3*time.Second)
		var err error
		switch op {
		case "insert":
			err = entry.Dataset(dsId).Insert(cctx, id, []float32{1, 2, 3}, nil)
		case "update":
			err = entry.Dataset(dsId).Update(cctx, id, []float32{1, 2, 3}, nil)
		default:
			err = entry.Dataset(dsId).Remove(cctx, id)
		}
		cancel()
		rec.Count("unreachable_owner_writes", 1)
		if err == nil {
			rec.Violation("ack:success-with-unreachable-owner:"+op, fmt.Sprintf("%s: %s(%s) through node 1 returned success although the owner partition %d is assigned only to node %d, whose address node 1 no longer knows", desc, op, id, p, victim), replay)
			break
		}
	}
	// the same through the public gRPC service of the entry node: what a real client is told
	if cc, derr := grpc.Dial(entry.Addr, grpc.WithInsecure()); derr == nil {
		defer cc.Close()
		dmc := pb.NewDataManagerClient(cc)
		rpcTried := 0
		for i := 0; i < 4000 && rpcTried < 6 && rec.Violations() == 0; i++ {
			id := hx.Id(c*100000 + 60000 + i)
			p := int(utils.UuidMod(id, uint64(parts)))
			onVictim := false
			for _, q := range hosted[victim] {
				if q == p {
					onVictim = true
				}
			}
			if !onVictim {
				continue
			}
			op := []string{"insert", "update", "remove"}[rpcTried%3]
			rpcTried++
			cctx, cancel := context.WithTimeout(ctx, 3*time.Second)
			var err error
			switch op {
			case "insert":
				_, err = dmc.Insert(cctx, &pb.InsertRequest{DatasetId: dsId.Bytes(), Id: id.Bytes(), Value: []float32{1, 2, 3}})
			case "update":
				_, err = dmc.Update(cctx, &pb.UpdateRequest{DatasetId: dsId.Bytes(), Id: id.Bytes(), Value: []float32{1, 2, 3}})
			default:
				_, err = dmc.Remove(cctx, &pb.RemoveRequest{DatasetId: dsId.Bytes(), Id: id.Bytes()})
			}
			cancel()
			rec.Count("unreachable_owner_writes", 1)
			rec.Count("unreachable_owner_writes_over_grpc", 1)
			if err == nil {
				rec.Violation("ack:success-with-unreachable-owner:grpc-"+op, fmt.Sprintf("%s: the %s RPC for %s sent to node 1 was answered with success although the owner partition %d is assigned only to node %d, whose address node 1 no longer knows", desc, op, id, p, victim), replay)
				break
			}
		}
	}
	rec.Case(mon.Digest(desc), tried > 0)
}

// applied-notification registry used by the forced "apply before wait" schedule
type appliedReg struct {
	linger  int32 // when set, a held caller stays at the pause point 80 ms longer (its own deadline passes)
	mu      sync.Mutex
	applied map[uuid.UUID]bool
	waiters map[uuid.UUID]chan struct{}
	force   bool
}

func (r *appliedReg) onApplied(nid uuid.UUID) {
	r.mu.Lock()
	r.applied[nid] = true
	if ch, ok := r.waiters[nid]; ok {
		close(ch)
		delete(r.waiters, nid)
	}
	r.mu.Unlock()
}

// hold blocks the proposer between Propose and its wait until its own entry
// has been applied (only while force is on).
func (r *appliedReg) hold(nid uuid.UUID) bool {
	r.mu.Lock()
	if !r.force {
		r.mu.Unlock()
		return false
	}
	if r.applied[nid] {
		r.mu.Unlock()
		return true
	}
	ch := make(chan struct{})
	r.waiters[nid] = ch
	r.mu.Unlock()
	select {
	case <-ch:
		return true
	case <-time.After(3 * time.Second):
		return false
	}
}

func scenario(rec *mon.Recorder, c int) {
	rng := rec.Rand("c11", c)
	nodes := 1 + c%3
	parts := 1 + rng.Intn(4)
	repl := 1
	if nodes > 1 && c%2 == 1 {
		repl = 2
	}
	dim := 3
	desc := fmt.Sprintf("case=%d nodes=%d partitions=%d replication=%d", c, nodes, parts, repl)
	rec.Current(desc)
	cl := sim.New(sim.Options{Nodes: nodes, Dir: os.Getenv("VERIF_SCRATCH") + fmt.Sprintf("/c11-%d", c), TickEvery: 10 * time.Millisecond, Seed: rec.Seed() + int64(c)})
	defer cl.Close()
	reg := &appliedReg{applied: map[uuid.UUID]bool{}, waiters: map[uuid.UUID]chan struct{}{}}
	cl.OnEvent = func(n *sim.Node, group uuid.UUID, point string, args ...interface{}) {
		if point != "applied" || len(args) == 0 || uuid.Equal(group, uuid.Nil) {
			return
		}
		e, ok := args[0].(*raftpb.Entry)
		if !ok || e.Type != raftpb.EntryNormal || len(e.Data) == 0 {
			return
		}
		var ch pb.PartitionChange
		if proto.Unmarshal(e.Data, &ch) == nil {
			if nid, err := uuid.FromBytes(ch.GetNotificationId()); err == nil {
				reg.onApplied(nid)
			}
		}
	}
	held := int64(0)
	cl.OnPoint = func(point string, args ...interface{}) {
		if point == "partition.afterPropose" && len(args) == 2 {
			if nid, ok := args[1].(uuid.UUID); ok {
				if reg.hold(nid) {
					rec.Count("callers_held_until_applied", 1)
					held++
					time.Sleep(200 * time.Microsecond)
					if atomic.LoadInt32(&reg.linger) == 1 {
						time.Sleep(80 * time.Millisecond)
					}
				}
			}
		}
	}
	if err := cl.Start(); err != nil {
		rec.Inconclusive(desc + ": cluster start: " + err.Error())
		return
	}
	dsId, meta, err := cl.CreateDataset(rng.Intn(nodes), uint32(dim), uint32(parts), uint32(repl), pb.Space_Euclidean)
	if err != nil {
		rec.Inconclusive(desc + ": create dataset: " + err.Error())
		return
	}
	pids := make([]uuid.UUID, parts)
	for i, p := range meta.Partitions {
		pids[i] = uuid.FromBytesOrNil(p.Id)
	}
	ctx := context.Background()
	replay := map[string]interface{}{"case": c, "seed": rec.Seed(), "desc": desc}
	violated := false
	fail := func(sym, detail string) {
		if !violated {
			violated = true
			rec.Violation(sym, desc+": "+detail, replay)
		}
	}
	owners := func(id uuid.UUID) []uint64 {
		return cl.Nodes[0].Dataset(dsId).VerifPartitionNodeIds(pids[utils.UuidMod(id, uint64(parts))])
	}
	storedOn := func(id uuid.UUID) []uint64 {
		var out []uint64
		pid := pids[utils.UuidMod(id, uint64(parts))]
		for _, n := range cl.Nodes {
			if idx := n.PartitionIndex(dsId, pid); idx != nil {
				if _, err := idx.Get(id); err == nil {
					out = append(out, n.Id)
				}
			}
		}
		return out
	}
	lastIndexes := func() map[string]uint64 {
		out := map[string]uint64{}
		for _, n := range cl.Nodes {
			for i, pid := range pids {
				if w := cl.WAL(n, pid); w != nil {
					out[fmt.Sprintf("n%d/p%d", n.Id, i)] = w.View().Last
				}
			}
		}
		return out
	}
	serial := 0
	fresh := func() uuid.UUID { serial++; return hx.Id(c*100000 + serial) }
	vec := func() []float32 { return []float32{float32(serial), 1, 2} }

	// (a) success => applied on the owner's replicas (all of them at quiescence)
	for i := 0; i < 12 && !violated; i++ {
		id := fresh()
		via := cl.Nodes[rng.Intn(nodes)]
		cctx, cancel := context.WithTimeout(ctx, 8*time.Second)
		err := via.Dataset(dsId).Insert(cctx, id, vec(), nil)
		cancel()
		if err != nil {
			rec.Inconclusive(fmt.Sprintf("%s: plain insert failed: %v", desc, err))
			return
		}
		if len(storedOn(id)) == 0 {
			fail("ack:success-but-not-applied-anywhere", fmt.Sprintf("Insert(%s) through node %d returned success, no replica of the owner partition holds it", id, via.Id))
		}
		want := owners(id)
		if cl.WaitFor(10*time.Second, func() bool { return len(storedOn(id)) == len(want) }) != nil {
			fail("ack:success-but-missing-on-replica", fmt.Sprintf("Insert(%s) acknowledged; stored on %v, owner replicas %v", id, storedOn(id), want))
		}
		rec.Count("acks_checked", 1)
	}

	// (c) dimension mismatch: rejected before anything is proposed
	before := lastIndexes()
	for i := 0; i < 6 && !violated; i++ {
		id := fresh()
		via := cl.Nodes[rng.Intn(nodes)].Dataset(dsId)
		bad := make([]float32, dim+1+rng.Intn(3))
		if i%2 == 0 {
			bad = make([]float32, rng.Intn(dim))
		}
		var err error
		switch i % 3 {
		case 0:
			err = via.Insert(ctx, id, bad, nil)
		case 1:
			err = via.Update(ctx, id, bad, nil)
		default:
			var errs map[uuid.UUID]error
			errs, err = via.BatchInsert(ctx, []*pb.BatchItem{{Id: id.Bytes(), Value: bad}})
			if err == nil {
				err = errs[id]
			}
		}
		if err == nil || err.Error() != storage.DimensionMissmatchErr.Error() {
			fail("dimension:not-rejected", fmt.Sprintf("write with %d coordinates into a %d-dimensional dataset returned %v", len(bad), dim, err))
		}
		rec.Count("dimension_cases", 1)
	}
	time.Sleep(50 * time.Millisecond)
	after := lastIndexes()
	for k, v := range before {
		if after[k] != v {
			fail("dimension:entry-appended", fmt.Sprintf("raft log %s grew from %d to %d during dimension-mismatch writes", k, v, after[k]))
		}
	}

	// (d) batch error maps
	for round := 0; round < 6 && !violated; round++ {
		present := []uuid.UUID{fresh(), fresh(), fresh()}
		for _, id := range present {
			if err := cl.Nodes[rng.Intn(nodes)].Dataset(dsId).Insert(ctx, id, vec(), index.Metadata{"a": "1"}); err != nil {
				rec.Inconclusive(desc + ": setup insert: " + err.Error())
				return
			}
		}
		absent := []uuid.UUID{fresh(), fresh(), fresh()}
		wrongDim := fresh()
		kind := []string{"batch-insert", "batch-update", "batch-remove"}[round%3]
		var items []*pb.BatchItem
		want := map[uuid.UUID]string{}
		for _, id := range present {
			items = append(items, &pb.BatchItem{Id: id.Bytes(), Value: vec()})
			if kind == "batch-insert" {
				want[id] = index.ItemAlreadyExistsError.Error()
			}
		}
		for _, id := range absent {
			items = append(items, &pb.BatchItem{Id: id.Bytes(), Value: vec()})
			if kind != "batch-insert" {
				want[id] = index.ItemNotFoundError.Error()
			}
		}
		if kind != "batch-remove" {
			items = append(items, &pb.BatchItem{Id: wrongDim.Bytes(), Value: []float32{1}})
			want[wrongDim] = storage.DimensionMissmatchErr.Error()
		}
		rng.Shuffle(len(items), func(i, j int) { items[i], items[j] = items[j], items[i] })
		via := cl.Nodes[rng.Intn(nodes)].Dataset(dsId)
		cctx, cancel := context.WithTimeout(ctx, 10*time.Second)
		var errs map[uuid.UUID]error
		var err error
		switch kind {
		case "batch-insert":
			errs, err = via.BatchInsert(cctx, items)
		case "batch-update":
			errs, err = via.BatchUpdate(cctx, items)
		default:
			errs, err = via.BatchRemove(cctx, items)
		}
		cancel()
		if err != nil {
			fail("batch:call-failed:"+kind, err.Error())
			break
		}
		for id, w := range want {
			if e, ok := errs[id]; !ok || e.Error() != w {
				fail("batch:error-map:"+kind, fmt.Sprintf("id %s: got %v, want %q", id, e, w))
			}
		}
		for id, e := range errs {
			if _, ok := want[id]; !ok {
				fail("batch:error-map:"+kind, fmt.Sprintf("id %s reported %v although its item succeeded", id, e))
			}
		}
		// effects: succeeded items are applied
		for _, id := range absent {
			if kind == "batch-insert" && len(storedOn(id)) == 0 {
				fail("batch:success-but-not-applied:"+kind, fmt.Sprintf("id %s reported no error but is not stored", id))
			}
		}
		for _, id := range present {
			if kind == "batch-remove" && len(storedOn(id)) == len(owners(id)) && cl.WaitFor(5*time.Second, func() bool { return len(storedOn(id)) == 0 }) != nil {
				fail("batch:success-but-not-applied:"+kind, fmt.Sprintf("id %s reported removed but is still stored on %v", id, storedOn(id)))
			}
		}
		rec.Count("batch_maps_checked", 1)
	}

	// (e) every applied local proposal reaches its own caller — also when the
	// apply loop finishes before the caller starts waiting (forced), and with
	// many concurrent callers
	runCallers := func(phase string, callers, rounds int) {
		phaseBase := 0
		if phase == "concurrent" {
			phaseBase = 20000
		}
		var wg sync.WaitGroup
		for g := 0; g < callers; g++ {
			wg.Add(1)
			id := fresh()
			go func(g int, id uuid.UUID) {
				defer wg.Done()
				d := cl.Nodes[g%nodes].Dataset(dsId)
				for r := 0; r < rounds; r++ {
					steps := []struct {
						name string
						want string
					}{{"insert", ""}, {"insert", index.ItemAlreadyExistsError.Error()}, {"update", ""}, {"remove", ""}, {"remove", index.ItemNotFoundError.Error()}, {"update", index.ItemNotFoundError.Error()}}
					for _, s := range steps {
						cctx, cancel := context.WithTimeout(ctx, 9*time.Second)
						var err error
						t0 := time.Now()
						switch s.name {
						case "insert":
							err = d.Insert(cctx, id, []float32{float32(g), 1, 2}, index.Metadata{"g": fmt.Sprint(g)})
						case "update":
							err = d.Update(cctx, id, []float32{float32(g), 3, 4}, nil)
						default:
							err = d.Remove(cctx, id)
						}
						cancel()
						got := ""
						if err != nil {
							got = err.Error()
						}
						rec.Count("caller_outcomes_checked", 1)
						if got != s.want && !stringsContain(got, s.want) {
							sym := "caller:wrong-outcome"
							if stringsContain(got, "deadline exceeded") {
								sym = "caller:outcome-lost"
							}
							fail(sym+":"+phase, fmt.Sprintf("caller %d %s(%s) got %q want %q after %v", g, s.name, id, got, s.want, time.Since(t0).Round(time.Millisecond)))
							return
						}
					}
					// batch forms: the error map a caller gets names exactly its own failing ids, whatever
					// other callers' batches are applied on the same partition meanwhile
					base := c*100000 + 50000 + phaseBase + (g*rounds+r)*3
					a, b, x := hx.Id(base), hx.Id(base+1), hx.Id(base+2)
					item := func(id uuid.UUID) *pb.BatchItem {
						return &pb.BatchItem{Id: id.Bytes(), Value: []float32{float32(g), 5, 6}, Metadata: map[string]string{"g": fmt.Sprint(g)}}
					}
					exists, missing := index.ItemAlreadyExistsError.Error(), index.ItemNotFoundError.Error()
					bsteps := []struct {
						name  string
						items []uuid.UUID
						want  map[uuid.UUID]string
					}{
						{"batch-insert", []uuid.UUID{a, b}, map[uuid.UUID]string{}},
						{"batch-insert", []uuid.UUID{a, b}, map[uuid.UUID]string{a: exists, b: exists}},
						{"batch-update", []uuid.UUID{a, x}, map[uuid.UUID]string{x: missing}},
						{"batch-remove", []uuid.UUID{a, b, x}, map[uuid.UUID]string{x: missing}},
						{"batch-remove", []uuid.UUID{a, b}, map[uuid.UUID]string{a: missing, b: missing}},
					}
					for _, s := range bsteps {
						var items []*pb.BatchItem
						for _, id := range s.items {
							items = append(items, item(id))
						}
						cctx, cancel := context.WithTimeout(ctx, 9*time.Second)
						var errs map[uuid.UUID]error
						var err error
						switch s.name {
						case "batch-insert":
							errs, err = d.BatchInsert(cctx, items)
						case "batch-update":
							errs, err = d.BatchUpdate(cctx, items)
						default:
							errs, err = d.BatchRemove(cctx, items)
						}
						cancel()
						rec.Count("caller_outcomes_checked", 1)
						rec.Count("caller_batch_outcomes_checked", 1)
						if err != nil {
							sym := "caller:wrong-outcome"
							if stringsContain(err.Error(), "deadline exceeded") {
								sym = "caller:outcome-lost"
							}
							fail(sym+":"+phase, fmt.Sprintf("caller %d %s failed as a whole: %v", g, s.name, err))
							return
						}
						bad := len(errs) != len(s.want)
						for id, w := range s.want {
							if e, ok := errs[id]; !ok || e == nil || !stringsContain(e.Error(), w) {
								bad = true
							}
						}
						if bad {
							fail("caller:wrong-batch-outcome:"+phase, fmt.Sprintf("caller %d %s of its own ids %v got error map %v want %v", g, s.name, s.items, errs, s.want))
							return
						}
					}
				}
			}(g, id)
		}
		wg.Wait()
	}
	if repl == 1 { // the only replica applies: the proposer can be held until its entry is applied
		reg.mu.Lock()
		reg.force = true
		reg.mu.Unlock()
		runCallers("apply-before-wait", 3, 1)
		reg.mu.Lock()
		reg.force = false
		reg.mu.Unlock()
	}
	if repl == 1 && !violated {
		// A caller whose own deadline passes while its outcome is already waiting for it: it may leave with either
		// (the write was applied, the caller may be told so or not). Whatever it leaves behind must not reach the
		// next caller: a duplicate insert right afterwards is refused, a remove of an absent id is refused.
		reg.mu.Lock()
		reg.force = true
		reg.mu.Unlock()
		d := cl.Nodes[0].Dataset(dsId)
		for r := 0; r < 24 && !violated; r++ {
			x := hx.Id(c*100000 + 90000 + r)
			atomic.StoreInt32(&reg.linger, 1)
			actx, acancel := context.WithTimeout(ctx, 30*time.Millisecond)
			aerr := d.Insert(actx, x, []float32{float32(r), 7, 8}, nil)
			acancel()
			atomic.StoreInt32(&reg.linger, 0)
			if aerr != nil {
				rec.Count("callers_that_left_on_their_deadline_with_the_outcome_waiting", 1)
			}
			// the insert above was applied (the caller was held until it was): the same id again is a duplicate
			bctx, bcancel := context.WithTimeout(ctx, 9*time.Second)
			var berr error
			what := "insert of the id the expired caller had just inserted"
			if r%2 == 0 {
				berr = d.Insert(bctx, x, []float32{float32(r), 9, 9}, nil)
				if berr == nil || !stringsContain(berr.Error(), index.ItemAlreadyExistsError.Error()) {
					fail("caller:wrong-outcome:after-a-caller-left-on-its-deadline", fmt.Sprintf("%s (%s) returned %v, want %q (the earlier caller's insert returned %v)", what, x, berr, index.ItemAlreadyExistsError, aerr))
				}
			} else {
				what = "remove of an absent id"
				y := hx.Id(c*100000 + 95000 + r)
				berr = d.Remove(bctx, y)
				if berr == nil || !stringsContain(berr.Error(), index.ItemNotFoundError.Error()) {
					fail("caller:wrong-outcome:after-a-caller-left-on-its-deadline", fmt.Sprintf("%s (%s) returned %v, want %q (the earlier caller's insert returned %v)", what, y, berr, index.ItemNotFoundError, aerr))
				}
			}
			bcancel()
			rec.Count("caller_outcomes_checked", 1)
		}
		reg.mu.Lock()
		reg.force = false
		reg.mu.Unlock()
	}
	if !violated {
		rounds := 2
		if repl > 1 {
			rounds = 4 // writes enter through several replicas of one partition: more chances for their outcomes to cross
		}
		runCallers("concurrent", 24, rounds)
	}
	rec.Case(mon.Digest(desc), true)
	if rec.WantSample() {
		rec.Sample(replay)
	}
}

func stringsContain(s, sub string) bool {
	if sub == "" {
		return s == ""
	}
	for i := 0; i+len(sub) <= len(s); i++ {
		if s[i:i+len(sub)] == sub {
			return true
		}
	}
	return false
}
