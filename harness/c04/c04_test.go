// C04 — replicas applying the same log hold identical contents; snapshot
// equals replay. Stand-alone partition state machines fed byte-identical entries.
package c04

import (
	"sync"
	"bytes"
	"fmt"
	"testing"

	pb "github.com/marekgalovic/anndb/protobuf"
	"github.com/marekgalovic/anndb/storage"
	"verif/harness/hx"
	"verif/harness/mon"
	"verif/harness/smx"
)

type applied struct {
	got       interface{}
	delivered bool
}

func applyAll(sm *storage.VerifPartitionSM, log []*smx.Entry, from int) (outs []applied, err error) {
	defer func() {
		if p := recover(); p != nil {
			err = fmt.Errorf("panic: %v", p)
		}
	}()
	for i := from; i < len(log); i++ {
		g, d, e := sm.Apply(log[i].Bytes)
		if e != nil {
			return outs, fmt.Errorf("entry %d: %v", i, e)
		}
		outs = append(outs, applied{g, d})
	}
	return outs, nil
}

func TestC04(t *testing.T) {
	rec := mon.Open("C04")
	defer rec.Finish(t)
	// Several logs are worked on at once, each by a goroutine of its own, as the partitions of one node are (every
	// replica applies, snapshots and restores on its own ready-loop): what one state machine serialises or loads must
	// not depend on what another one is doing.
	var wg sync.WaitGroup
	sem := make(chan struct{}, 4)
	run := func(c int, long bool) {
		wg.Add(1)
		sem <- struct{}{}
		go func() {
			defer wg.Done()
			defer func() { <-sem }()
			runLog(rec, c, long)
		}()
	}
	n := rec.N(600, 20000)
	for c := 0; c < n; c++ {
		if rec.Mine(c) {
			run(c, false)
		}
	}
	long := rec.N(4, 200)
	for c := 0; c < long; c++ {
		if rec.Mine(c) {
			run(9000000+c, true)
		}
	}
	wg.Wait()
}

func runLog(rec *mon.Recorder, c int, long bool) {
	rng := rec.Rand("c04", c)
	metric := 1 + rng.Intn(3)
	dim := 1 + rng.Intn(6)
	if metric == 3 && dim == 1 {
		dim = 2
	}
	g := &smx.Gen{Rng: rng, Dim: dim, Universe: 3 + rng.Intn(10), Metric: metric, ZeroId: c%4 == 2}
	n := 5 + rng.Intn(36)
	if long {
		n = 200 + rng.Intn(1800)
		g.Universe = 20 + rng.Intn(200)
	}
	var log []*smx.Entry
	var descs []string
	for i := 0; i < n; i++ {
		e := g.Next()
		log = append(log, e)
		descs = append(descs, e.Desc)
	}
	newSM := func() *storage.VerifPartitionSM { return storage.VerifNewPartitionSM(uint32(dim), smx.SpaceOf(metric)) }
	replay := func(extra string) map[string]interface{} {
		d := descs
		if len(d) > 60 {
			d = d[:60]
		}
		return map[string]interface{}{"case": c, "seed": rec.Seed(), "dim": dim, "metric": metric, "log": d, "what": extra}
	}

	// reference: sequential model, state after every prefix
	model := smx.NewModel()
	wants := make([]smx.Outcome, n)
	for i, e := range log {
		wants[i] = model.Apply(e.Decode())
	}

	// replica A applies everything
	A := newSM()
	outsA, err := applyAll(A, log, 0)
	if err != nil {
		rec.Violation("replica-apply-failed", err.Error(), replay(err.Error()))
		return
	}
	for i := range log {
		if d := smx.CompareOutcome(wants[i], log[i].Change, outsA[i].got, outsA[i].delivered); d != "" {
			rec.Violation("outcome-differs-from-sequential-map", fmt.Sprintf("entry %d (%s): %s", i, log[i].Desc, d), replay(d))
			return
		}
	}
	if d := hx.ContentDiff(A.Index().VerifDump(), model.Items); d != "" {
		rec.Violation("contents-differ-from-sequential-map", d, replay(d))
		return
	}
	// a second replica fed the same bytes
	A2 := newSM()
	if _, err := applyAll(A2, log, 0); err != nil {
		rec.Violation("replica-apply-failed", err.Error(), replay(err.Error()))
		return
	}
	if d := contentDiff(A, A2); d != "" {
		rec.Violation("replicas-differ:apply-all", d, replay(d))
		return
	}

	// cut points
	var cuts []int
	if n <= 40 {
		for k := 0; k <= n; k++ {
			cuts = append(cuts, k)
		}
	} else {
		cuts = append(cuts, 0, n)
		for i := 0; i < 14; i++ {
			cuts = append(cuts, rng.Intn(n+1))
		}
	}
	P := newSM() // incremental prefix replica the snapshots are taken from
	type keptSnap struct {
		k          int
		snap, copy []byte
	}
	var keptSnaps []keptSnap
	pos := 0
	emptyCuts, cutsDone := 0, 0
	sortInts(cuts)
	for _, k := range cuts {
		if _, err := applyRange(P, log, pos, k); err != nil {
			rec.Violation("replica-apply-failed", err.Error(), replay(err.Error()))
			return
		}
		pos = k
		snap, err := P.Snapshot()
		if err != nil {
			rec.Violation("snapshot-error", fmt.Sprintf("cut %d: %v", k, err), replay(err.Error()))
			return
		}
		if P.Index().Len() == 0 {
			emptyCuts++
		}
		keptSnaps = append(keptSnaps, keptSnap{k: k, snap: snap, copy: append([]byte(nil), snap...)})
		variants := []string{"fresh", "used", "twice"}
		for vi, variant := range variants {
			if long && vi != cutsDone%3 {
				continue
			}
			R := newSM()
			if variant == "used" { // what a lagging follower is: it applied some other prefix
				j := rng.Intn(k + 1)
				if _, err := applyRange(R, log, 0, j); err != nil {
					rec.Violation("replica-apply-failed", err.Error(), replay(err.Error()))
					return
				}
				if rng.Intn(2) == 0 { // or diverged contents (uncommitted never applies, but a stale snapshot can)
					g2 := &smx.Gen{Rng: rng, Dim: dim, Universe: g.Universe, Metric: metric, ZeroId: g.ZeroId}
					for x := 0; x < 3; x++ {
						R.Apply(g2.Next().Bytes)
					}
				}
			}
			rerr := func() (err error) {
				defer func() {
					if p := recover(); p != nil {
						err = fmt.Errorf("panic: %v", p)
					}
				}()
				if err := R.Restore(snap); err != nil {
					return err
				}
				if variant == "twice" {
					return R.Restore(snap)
				}
				return nil
			}()
			cls := "nonempty"
			if P.Index().Len() == 0 {
				cls = "empty"
			}
			if rerr != nil {
				rec.Violation(fmt.Sprintf("restore-error:%s:%s", variant, cls), fmt.Sprintf("cut %d: %v", k, rerr), replay(rerr.Error()))
				return
			}
			if d := contentDiff(P, R); d != "" {
				rec.Violation(fmt.Sprintf("restored-differs-from-source:%s:%s", variant, cls), fmt.Sprintf("cut %d: %s", k, d), replay(d))
				return
			}
			if R.Index().Len() != P.Index().Len() || R.Index().VerifDump().RawBytesSize != P.Index().VerifDump().RawBytesSize {
				rec.Violation(fmt.Sprintf("restored-counters-differ:%s:%s", variant, cls), fmt.Sprintf("cut %d: Len %d vs %d, bytes %d vs %d", k, R.Index().Len(), P.Index().Len(), R.Index().VerifDump().RawBytesSize, P.Index().VerifDump().RawBytesSize), replay(""))
				return
			}
			outs, err := applyAll(R, log, k)
			if err != nil {
				rec.Violation(fmt.Sprintf("replica-apply-failed-after-restore:%s:%s", variant, cls), fmt.Sprintf("cut %d: %v", k, err), replay(err.Error()))
				return
			}
			for i := range outs {
				if d := smx.CompareOutcome(wants[k+i], log[k+i].Change, outs[i].got, outs[i].delivered); d != "" {
					rec.Violation(fmt.Sprintf("outcome-differs-after-restore:%s:%s", variant, cls), fmt.Sprintf("cut %d entry %d (%s): %s", k, k+i, log[k+i].Desc, d), replay(d))
					return
				}
			}
			if d := contentDiff(A, R); d != "" {
				rec.Violation(fmt.Sprintf("snapshot-plus-replay-differs-from-replay:%s:%s", variant, cls), fmt.Sprintf("cut %d: %s", k, d), replay(d))
				return
			}
			rec.Count("restores_checked", 1)
		}
		cutsDone++
	}
	// A snapshot is kept by whoever received it (the log store, a message to a lagging follower) while the replica
	// goes on and takes later ones: every earlier snapshot of P is restored again now, after all later ones were taken.
	for i, ks := range keptSnaps {
		if long && i%4 != 0 {
			continue
		}
		R := newSM()
		what := ""
		if !bytes.Equal(ks.snap, ks.copy) {
			what = " (the bytes handed out at the cut have changed since)"
		}
		rerr := func() (err error) {
			defer func() {
				if p := recover(); p != nil {
					err = fmt.Errorf("panic: %v", p)
				}
			}()
			return R.Restore(ks.snap)
		}()
		if rerr != nil {
			rec.Violation("earlier-snapshot-restored-after-later-snapshots:restore-error", fmt.Sprintf("cut %d of %d: %v%s", ks.k, n, rerr, what), replay(rerr.Error()))
			return
		}
		outs, err := applyAll(R, log, ks.k)
		if err != nil {
			rec.Violation("earlier-snapshot-restored-after-later-snapshots:apply-failed", fmt.Sprintf("cut %d: %v%s", ks.k, err, what), replay(err.Error()))
			return
		}
		for j := range outs {
			if d := smx.CompareOutcome(wants[ks.k+j], log[ks.k+j].Change, outs[j].got, outs[j].delivered); d != "" {
				rec.Violation("earlier-snapshot-restored-after-later-snapshots:outcome-differs", fmt.Sprintf("cut %d entry %d (%s): %s%s", ks.k, ks.k+j, log[ks.k+j].Desc, d, what), replay(d))
				return
			}
		}
		if d := contentDiff(A, R); d != "" {
			rec.Violation("earlier-snapshot-restored-after-later-snapshots:contents-differ-from-replay", fmt.Sprintf("cut %d: %s%s", ks.k, d, what), replay(d))
			return
		}
		rec.Count("earlier_snapshots_restored_late", 1)
	}
	rec.Count("cuts", int64(cutsDone))
	rec.Count("cuts_on_empty_index", int64(emptyCuts))
	rec.Count("entries", int64(n))
	kinds := map[pb.PartitionChangeType]bool{}
	for _, e := range log {
		kinds[e.Change.Type] = true
	}
	rec.Case(mon.Digest(dim, metric, descs), len(kinds) >= 3 && cutsDone >= 3)
	if rec.WantSample() && n <= 8 {
		rec.Sample(map[string]interface{}{"case": c, "dim": dim, "metric": metric, "log": descs, "cuts": cuts})
	}
}

func applyRange(sm *storage.VerifPartitionSM, log []*smx.Entry, from, to int) ([]applied, error) {
	return applyAll(sm, log[:to], from)
}

func contentDiff(a, b *storage.VerifPartitionSM) string {
	da, db := a.Index().VerifDump(), b.Index().VerifDump()
	ref := hx.Ref{}
	for id, v := range da.Vertices {
		ref[id] = &hx.Item{Vec: v.Vector, Meta: v.Metadata}
	}
	return hx.ContentDiff(db, ref)
}

func sortInts(a []int) {
	for i := 1; i < len(a); i++ {
		for j := i; j > 0 && a[j-1] > a[j]; j-- {
			a[j-1], a[j] = a[j], a[j-1]
		}
	}
}
