// C08 — index snapshots round-trip exactly for every reachable state and any reader.
package c08

import (
	"bytes"
	"fmt"
	amath "github.com/marekgalovic/anndb/math"
	"io"
	"math"
	"math/rand"
	"os"
	"runtime"
	"strconv"
	"strings"
	"sync"
	"testing"
	"time"

	"github.com/marekgalovic/anndb/index"
	"verif/harness/hx"
	"verif/harness/mon"
)

// countingReader hands out the stream in fragments decided by next() and
// counts what was consumed; the stream is followed by a sentinel tail that
// must stay unread.
type countingReader struct {
	data []byte
	pos  int
	next func(pos, want int) int
}

func (r *countingReader) Read(p []byte) (int, error) {
	if len(p) == 0 {
		return 0, nil
	}
	if r.pos >= len(r.data) {
		return 0, io.EOF
	}
	n := len(p)
	if r.next != nil {
		if m := r.next(r.pos, n); m < n {
			n = m
		}
	}
	if n < 1 {
		n = 1
	}
	if r.pos+n > len(r.data) {
		n = len(r.data) - r.pos
	}
	copy(p, r.data[r.pos:r.pos+n])
	r.pos += n
	return n, nil
}

const tailLen = 64

func withTail(b []byte) []byte {
	out := make([]byte, len(b)+tailLen)
	copy(out, b)
	for i := len(b); i < len(out); i++ {
		out[i] = 0xA5
	}
	return out
}

type shape struct {
	name     string
	overflow bool
	gen      func(rng *rand.Rand) index.Metadata
}

func bigString(n int, c byte) string { return strings.Repeat(string([]byte{c}), n) }

var shapes = []shape{
	{"none", false, func(*rand.Rand) index.Metadata { return nil }},
	{"keys300", false, func(*rand.Rand) index.Metadata {
		m := index.Metadata{}
		for i := 0; i < 300; i++ {
			m[fmt.Sprintf("key-%03d", i)] = fmt.Sprintf("value-%d", i)
		}
		return m
	}},
	{"key255", false, func(*rand.Rand) index.Metadata { return index.Metadata{bigString(255, 'k'): "v"} }},
	{"value65535", false, func(*rand.Rand) index.Metadata { return index.Metadata{"k": bigString(65535, 'v')} }},
	{"non-utf8", false, func(*rand.Rand) index.Metadata {
		return index.Metadata{"\xff\xfe\x00k": "\x80\x81\x00\xffv", "": ""}
	}},
	{"empty-strings", false, func(*rand.Rand) index.Metadata { return index.Metadata{"": "", "a": ""} }},
	{"key256", true, func(*rand.Rand) index.Metadata { return index.Metadata{bigString(256, 'k'): "v"} }},
	{"value65536", true, func(*rand.Rand) index.Metadata { return index.Metadata{"k": bigString(65536, 'v')} }},
	{"pairs65536", true, func(*rand.Rand) index.Metadata {
		m := index.Metadata{}
		for i := 0; i < 65536; i++ {
			m[fmt.Sprintf("%x", i)] = ""
		}
		return m
	}},
}

func TestC08(t *testing.T) {
	rec := mon.Open("C08")
	defer rec.Finish(t)
	// Four cases at a time, each on a goroutine of its own: the indexes of one process (one per partition replica) are
	// saved and loaded by independent loops, and what one of them writes or reads must not depend on the others.
	n := rec.N(1500, 60000)
	var wg sync.WaitGroup
	sem := make(chan struct{}, 4)
	for c := 0; c < n; c++ {
		if rec.Mine(c) {
			wg.Add(1)
			sem <- struct{}{}
			go func(c int) {
				defer wg.Done()
				defer func() { <-sem }()
				runCase(rec, c, -1)
			}(c)
		}
	}
	wg.Wait()
	// metadata shapes, each a few times. Shapes that exceed a length field of
	// the format can make Load misparse the stream and die with a runtime
	// out-of-memory error, so each of those runs in a process of its own.
	reps := rec.N(1, 4)
	c := 0
	for r := 0; r < reps; r++ {
		for si, sh := range shapes {
			if rec.Mine(c) {
				if !sh.overflow {
					runCase(rec, 5000000+c, si)
				} else {
					iso := rec.RunIsolated("^TestC08One$", map[string]string{
						"VERIF_C08_CASE": fmt.Sprint(5000000 + c), "VERIF_C08_SHAPE": fmt.Sprint(si)}, 5*time.Minute)
					rec.Merge(iso.Summary)
					if iso.Summary == nil || !iso.Summary.Complete {
						what := iso.Crash
						if iso.TimedOut {
							rec.Inconclusive("isolated shape case timed out: " + sh.name)
						} else {
							rec.Violation("metadata-length-overflow:"+sh.name,
								fmt.Sprintf("process died while loading its own snapshot: %s @%s", what, iso.Frame),
								map[string]interface{}{"case": 5000000 + c, "shape": sh.name, "log": iso.LogTail})
						}
					}
				}
			}
			c++
		}
	}
}

// TestC08One runs one metadata-shape case in an isolated process.
func TestC08One(t *testing.T) {
	if os.Getenv("VERIF_ISOLATED") == "" {
		t.Skip("only run through RunIsolated")
	}
	rec := mon.Open("C08")
	defer rec.Finish(t)
	c, _ := strconv.Atoi(os.Getenv("VERIF_C08_CASE"))
	si, _ := strconv.Atoi(os.Getenv("VERIF_C08_SHAPE"))
	runCase(rec, c, si)
}

func runCase(rec *mon.Recorder, c int, shapeIdx int) {
	rng := rec.Rand("c08", c)
	cfg := hx.GenCfg(rng)
	steps, universe := rng.Intn(50), 2+rng.Intn(14)
	kind := "history"
	switch rng.Intn(12) {
	case 0:
		steps, kind = 0, "never-used"
	}
	idx, sp, ref, ops := hx.BuildState(rng, cfg, steps, universe)
	_ = sp
	if kind == "history" && rng.Intn(8) == 0 { // emptied by removals
		for id := range ref {
			idx.Remove(id)
			delete(ref, id)
		}
		ops = append(ops, "remove-all")
		kind = "emptied"
	}
	shapeName := "plain"
	overflow := false
	if shapeIdx >= 0 {
		sh := shapes[shapeIdx]
		shapeName, overflow = sh.name, sh.overflow
		id := hx.Id(1000 + rng.Intn(5))
		m := sh.gen(rng)
		v := cfg.Vec(rng)
		if err := idx.Insert(id, v, m, rng.Intn(2)); err != nil {
			rec.Violation("setup:insert", err.Error(), nil)
			return
		}
		ref[id] = &hx.Item{Vec: v, Meta: m}
		ops = append(ops, "ins meta-shape "+sh.name)
	}
	if c%16 == 9 && shapeIdx < 0 {
		// items whose distances to other items are not numbers: the all-zero vector under the cosine metric (0/0), a
		// component of +Inf under the other two (Inf - Inf). The server accepts them, links to them carry NaN as
		// their cached distance, and a snapshot has to carry that too.
		for k := 0; k < 1+rng.Intn(2); k++ {
			v := make(amath.Vector, cfg.Dim)
			if cfg.Metric != 3 {
				copy(v, cfg.Vec(rng))
				v[rng.Intn(cfg.Dim)] = float32(math.Inf(1))
			}
			id := hx.Id(2000 + k)
			if err := idx.Insert(id, v, nil, rng.Intn(2)); err == nil {
				ref[id] = &hx.Item{Vec: v}
				ops = append(ops, "ins item-with-non-number-distances")
				rec.Count("items_with_non_number_distances_saved", 1)
			}
		}
	}
	if len(ref) == 0 && kind == "history" {
		kind = "emptied"
	}
	header := rng.Intn(2) == 0
	before := idx.VerifDump()
	desc := fmt.Sprintf("%s header=%v n=%d shape=%s", kind, header, len(ref), shapeName)
	stateClass := "nonempty"
	if len(ref) == 0 {
		stateClass = "empty"
	}
	replay := func(extra string) map[string]interface{} {
		return map[string]interface{}{"case": c, "seed": rec.Seed(), "cfg": cfg.String(), "ops": ops, "desc": desc, "what": extra}
	}
	fail := func(sym, target, reader, detail string) {
		sig := fmt.Sprintf("%s:%s:target-%s:reader-%s:meta-%s", sym, stateClass, target, reader, shapeName)
		if overflow {
			// the stream written for these shapes is corrupt in a way whose
			// symptom depends on the bytes that follow; key the finding by the
			// input class
			sig = "metadata-length-overflow:" + shapeName
			detail = fmt.Sprintf("%s (target %s, reader %s): %s", sym, target, reader, detail)
		}
		rec.Violation(sig, desc+": "+detail, replay(detail))
	}

	if d := hx.ContentDiff(before, ref); d != "" {
		fail("state-differs-from-reference", "-", "-", d)
		return
	}
	var buf bytes.Buffer
	if err := idx.Save(&buf, header); err != nil {
		fail("save-error", "-", "-", err.Error())
		return
	}
	B := buf.Bytes()
	rec.Count("bytes_saved", int64(len(B)))
	stream := withTail(B)
	if len(ref) == 0 {
		// The encoding of an empty index is zero bytes after the optional
		// header: it is delimited by end of stream, so nothing can follow it.
		stream = B
	}
	rec.Current(fmt.Sprintf("case=%d cfg=%s desc=%s ops=%v", c, cfg.String(), desc, ops))

	type readerKind struct {
		name string
		mk   func() *countingReader
	}
	readers := []readerKind{
		{"whole", func() *countingReader { return &countingReader{data: stream} }},
		{"fragmented", func() *countingReader {
			return &countingReader{data: stream, next: func(pos, want int) int { return 1 }}
		}},
	}
	crng := rand.New(rand.NewSource(rng.Int63()))
	readers = append(readers, readerKind{"fragmented", func() *countingReader {
		return &countingReader{data: stream, next: func(pos, want int) int { return 1 + crng.Intn(7) }}
	}})
	// single split points: the reader returns data only up to the split, then the rest
	var splits []int
	if len(B) <= 4096 && len(B) > 0 && !rec.Quick() && c%16 == 0 {
		for p := 1; p < len(B); p++ {
			splits = append(splits, p)
		}
		rec.Count("exhaustive_split_sweeps", 1)
	} else if len(B) > 1 && len(B) < 1<<20 {
		for i := 0; i < 8; i++ {
			splits = append(splits, 1+crng.Intn(len(B)-1))
		}
	}
	for _, p := range splits {
		p := p
		readers = append(readers, readerKind{"fragmented", func() *countingReader {
			return &countingReader{data: stream, next: func(pos, want int) int {
				if pos < p && pos+want > p {
					return p - pos
				}
				return want
			}}
		}})
	}

	loads := 0
	for ti, target := range []string{"fresh", "used"} {
		for ri, rk := range readers {
			if ti == 1 && ri > 2 && ri%4 != 0 {
				continue // used target: whole, both fragmenting readers, a quarter of the splits
			}
			var tgt *index.Hnsw
			if target == "fresh" {
				tgt, _ = cfg.New()
				if header { // the header must carry everything
					other := cfg
					other.M, other.Ef, other.Dim, other.Metric = 5, 7, 1+cfg.Dim%3, 1+cfg.Metric%3
					tgt, _ = other.New()
				}
			} else {
				ucfg := cfg
				urng := rand.New(rand.NewSource(int64(c)*7919 + int64(ri)))
				tgt, _, _, _ = hx.BuildState(urng, ucfg, 5+urng.Intn(20), 8)
			}
			r := rk.mk()
			var m0, m1 runtime.MemStats
			runtime.ReadMemStats(&m0)
			err := func() (err error) {
				defer func() {
					if p := recover(); p != nil {
						err = fmt.Errorf("panic: %v", p)
					}
				}()
				return tgt.Load(r, header)
			}()
			runtime.ReadMemStats(&m1)
			loads++
			if err != nil {
				fail("load-error", target, rk.name, err.Error())
				return
			}
			if r.pos != len(B) {
				fail("bytes-consumed", target, rk.name, fmt.Sprintf("consumed %d of %d bytes", r.pos, len(B)))
				return
			}
			after := tgt.VerifDump()
			if d := hx.DumpDiff(before, after); d != "" {
				sym := "dump-differs"
				if strings.HasPrefix(d, "byte counter") {
					sym = "stale-byte-counter"
				} else if strings.HasPrefix(d, "Len counter") {
					sym = "stale-len-counter"
				}
				fail(sym, target, rk.name, d)
				return
			}
			if header && idx.String() != tgt.String() {
				fail("header-config-differs", target, rk.name, fmt.Sprintf("%s vs %s", idx.String(), tgt.String()))
				return
			}
			if tgt.Len() != len(ref) {
				fail("stale-len-counter", target, rk.name, fmt.Sprintf("Len()=%d want %d", tgt.Len(), len(ref)))
				return
			}
			if alloc := m1.TotalAlloc - m0.TotalAlloc; alloc > 512*uint64(len(B))+(1<<20) {
				fail("allocation", target, rk.name, fmt.Sprintf("Load allocated %d bytes for a %d-byte stream", alloc, len(B)))
				return
			}
		}
	}
	rec.Count("loads_checked", int64(loads))
	rec.Seen("state_kinds", fmt.Sprintf("%s/%s/header=%v", kind, shapeName, header))
	rec.Case(mon.Digest(cfg.String(), ops, header, shapeName), true)
	if rec.WantSample() && len(ops) > 2 && len(ops) < 12 {
		rec.Sample(map[string]interface{}{"case": c, "cfg": cfg.String(), "ops": ops, "desc": desc, "bytes": len(B), "loads": loads})
	}
}
