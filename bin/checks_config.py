# Per-property configuration of bin/vcheck. One entry per claimed property.
CHECKS = {}
NOT_APPLICABLE = {}   # property id -> reason (only for properties that are not claimed)
HOOK_COMMITS = ["591d0aa", "cd8c611", "81459e8", "b3ade5a", "5b8c4ec", "9b840f3", "69c0b79", "b31fb55", "99c3958"]     # /repo commits that add build-tag-guarded hooks
MANIFEST_NOTES = ("Every check is `bin/vcheck <id> quick|thorough`; VERIF_SEED selects the seeded case lists. "
                  "Verdicts are three-valued (VIOLATION / held / INCONCLUSIVE); known findings are in known_findings.json.")

CHECKS["C19"] = {
    "pkg": "./c19", "run": "^TestC19$", "level": "exploration",
    "technique": "runtime monitor: sorted-multiset reference model checked after every queue operation over seeded operation sequences",
    "level_text": "Differential monitor of the real utils.PriorityQueue against a sorted-multiset model over tens of thousands (quick) to millions (thorough) of seeded operation sequences in which source and reversed queues are both kept in use; held means no divergence on any observed sequence. Every third case builds its first queue from 1-7 initial items handed to the constructor in arbitrary order. Every fourth tie-rich case draws priorities from the edges of the non-negative floats (negative zero, zero, the smallest subnormal, one, the largest finite value). In half of the cases that build a queue from initial items, a second queue of the other kind and a third from a prefix are built from the same caller's list, which has spare capacity.",
    "level_note": "Sampled sequences only (sizes up to ~400 items); container/heap trusted; single goroutine (the queue is not meant to be shared).",
    "shards": {"quick": 4, "thorough": 16},
    "timeout": {"quick": 300, "thorough": 1800},
    "rule": "seeded sequences (case c of VERIF_SEED) of push/pop/peek/ToSlice/Values/Reverse over a pool of up to 4 live min/max queues "
            "(tie-rich integer priorities or floats, 5..400 steps, then every queue drained); oracle = sorted-multiset model per queue; "
            "non-trivial = at least 3 pops checked; distinct = digest of the operation list",
    "assumptions": ["container/heap is trusted", "priorities are non-negative finite floats (Push panics on negatives by design)"],
    "min": {"any": {"pops_checked": 1000, "cases_with_reverse": 100}},
}

CHECKS["C01"] = {
    "pkg": "./c01", "run": "^TestC01", "level": "exploration", "mem_gb": {"quick": 0, "thorough": 0},
    "technique": "runtime monitor: reference map id->(vector,metadata) checked against every Search result over seeded insert/remove/update/snapshot histories",
    "level_text": "Reference-model monitor over thousands (quick) to hundreds of thousands (thorough) of seeded histories with generated index parameters; every Search result is checked for liveness, metadata, bit-exact score, order, uniqueness, size and non-emptiness. Held means no observed result violated the property. The dataset-level part (4 quick / 32 thorough clusters) issues single and batch inserts, updates and removes through any node and runs the same oracle on Dataset.Search; a round whose replicas are at rest without reaching the reference state is judged by the oracle (what a search returns then is stale or lost data). Every second save-and-load loads into an index that already holds other items, and snapshots of an empty index are taken too. One history in eight ends with searches by six goroutines at once while nobody writes, judged by the same oracle.",
    "level_note": "Sequential histories on one index, plus a smaller number of write histories through the Dataset API of in-process clusters (1..3 nodes, replicas quiescent before each search round) judged by the same oracle; concurrency is C13, exactness of the dataset merge is C09; NaN-producing inputs excluded (C12); the index dump hook is used only to classify failures.",
    "shards": {"quick": 8, "thorough": 16},
    "timeout": {"quick": 600, "thorough": 3000},
    "rule": "case c of VERIF_SEED = generated config (M 2..16, ef/efConstruction 1..40, simple/heuristic x extendCandidates x keepPruned, 3 metrics, dim 1..16, levels 0..5, integer or float coordinates) + history of <=60 ops (thorough also 2000-op histories) of insert / remove (biased to the entry point) / update / save+load, each followed by 1-3 searches (random, stored and just-removed queries, k in 1..n+2); non-trivial = >=1 successful removal and >=1 non-empty search result; distinct = digest of (config, op list)",
    "assumptions": ["space.Distance is deterministic for identical arguments", "zero vectors under cosine excluded"],
    "min": {"any": {"searches_checked": 10000, "removals": 1000, "dataset_searches_checked": 100}},
}

CHECKS["C07"] = {
    "pkg": "./c07", "run": "^TestC07$", "level": "exploration",
    "technique": "runtime monitor: brute-force ranking with the same space.Distance as oracle (bit-exact score sequence on small collections; mean recall@10 floor on large ones)",
    "level_text": "Differential monitor against brute force: exact top-k (bitwise score sequence, ids modulo ties) for thousands of seeded insert-only collections within the small-collection bound, every k in 1..n+1, harness-chosen levels; mean recall@10 >= 0.8 over 200 queries on each of 2 (quick) / 6 (thorough) random collections of 2000-5000 vectors built with default parameters. One small collection in eight is also searched by six goroutines at once, every answer compared with brute force. One exact case in eight gives the index a smaller link budget for the upper levels only (HnswMmax below M, level-0 budget derived), which leaves the collection within the bound of the property.",
    "level_note": "Sampled point sets, orders and level assignments; the recall floor is a statistical statement about the collections built here (seeded, deterministic), not a bound for all data.",
    "shards": {"quick": 8, "thorough": 16},
    "timeout": {"quick": 600, "thorough": 3000},
    "rule": "exactness: case c = generated config + insert-only collection of n<=2M+1 items (generic / clustered / collinear / duplicate points / all on one level; levels 0..6 chosen by the harness) with max(ef,k)>=n, 4 queries x every k in 1..n+1 compared with brute force; non-trivial = n>=3; recall: seeded uniform/normal collections, default parameters, real RandomLevel; distinct = digest of (config, insert list)",
    "assumptions": ["ties between equal scores may permute ids", "zero vectors under cosine excluded"],
    "min": {"any": {"exact_cases_with_a_smaller_upper_level_budget": 300, "exact_searches": 10000, "recall_collections": 1}},
}

CHECKS["C08"] = {
    "pkg": "./c08", "run": "^TestC08$", "level": "exploration",
    "technique": "runtime monitor: index dump before Save vs after Load (fresh and used targets) under counting/fragmenting readers with a sentinel tail",
    "level_text": "Round-trip monitor over seeded reachable states (empty, never used, emptied, entry point handed over, tombstone links, metadata shapes incl. length-field limits), each loaded into a fresh and a used index through whole, 1-byte, random-chunk and single-split readers; compares full dumps (ids, bit-identical vectors, metadata, levels, live links with cached distances, entry point), counters, bytes consumed and allocation.",
    "level_note": "Sampled states; every single split point is swept only for streams <= 4 KiB on a 1/16 subset of thorough cases; allocation bound is a coarse fixed multiple (512x stream + 1 MiB).",
    "shards": {"quick": 8, "thorough": 16},
    "timeout": {"quick": 600, "thorough": 3000},
    "rule": "case c = generated config + history of <=50 inserts/removes/updates (or never-used / emptied), with or without header, plus 9 metadata shapes (none, 300 keys, 255/256-byte key, 65535/65536-byte value, 65536 pairs, non-UTF-8, empty strings); each state saved once and loaded through >=11 reader/target combinations; non-trivial = every case (each contributes >=1 checked load); distinct = digest of (config, ops, header, shape)",
    "assumptions": ["the dump hook reads the index under the index's own locks"],
    "min": {"any": {"loads_checked": 5000}},
}

CHECKS["C02"] = {
    "pkg": "./c02", "run": "^TestC02$", "level": "exploration",
    "technique": "runtime monitor: sequential map model vs delivered outcome, Get, Len, byte counters and full dump after every applied partition change (stand-alone real partition state machine)",
    "level_text": "Model-based monitor over thousands (quick) to hundreds of thousands (thorough) of seeded logs of all six change kinds on the real partition apply code: per entry it compares the delivered outcome (per item for batches), the contents, Get for every id of the universe, Len, the raw byte counter, the public BytesSize range, and that a failed single operation left the whole dump unchanged. One log in eight carries single inserts and updates whose metadata has a key over 255 bytes or a value over 65535 bytes (what the snapshot format cannot express): the partition either holds it like anything else or refuses the operation, and a refused operation must have changed nothing.",
    "level_note": "Sequential application only (concurrency is C13); default HNSW parameters inside the partition as in production; ids repeated inside one batch are compared only on error identity (mixed outcome allowed).",
    "shards": {"quick": 8, "thorough": 16},
    "timeout": {"quick": 600, "thorough": 3000},
    "rule": "case c = log of 10..40 entries over a 4..12-id universe (insert/update/delete and their batch forms with 1..5 items, duplicates inside a batch, metadata nil/empty/empty strings/overlapping keys), dim 1..6, 3 metrics; non-trivial = >=1 failed single operation (dump compared before/after) and >=3 successful entries; distinct = digest of the log",
    "assumptions": ["outcome is captured through the partition's own notificator under the entry's notification id (hook VerifCreateWithId)"],
    "min": {"any": {"single_ops_with_overlong_metadata": 200, "entries_applied": 20000, "failed_single_ops_checked": 1000}},
}

CHECKS["C04"] = {
    "pkg": "./c04", "run": "^TestC04$", "level": "exploration",
    "technique": "runtime monitor: content equality and per-entry outcome equality of real partition state machines fed byte-identical logs, with snapshot/restore at every cut point",
    "level_text": "Differential monitor on the real partition apply/snapshot/restore code: replicas fed byte-identical entries are compared on contents and per-entry outcomes with each other and with a sequential map, for apply-all and for snapshot-at-cut + restore (into a fresh replica, into a used/diverged replica, twice) + replay of the rest. For logs of up to 40 entries every cut point 0..len is taken (exhaustive over cuts per log). Every earlier snapshot of the incremental replica is restored again after all later ones were taken (the bytes handed out are kept by the log store and by messages to lagging followers). Four logs are worked on at a time, each by a goroutine of its own (as the partitions of one node are), so that snapshots and restores of different state machines overlap.",
    "level_note": "Logs are sampled; cuts are exhaustive only for logs <= 40 entries (16 sampled cuts for the long logs); graph shape, levels and links are deliberately not compared (legitimately non-deterministic).",
    "shards": {"quick": 8, "thorough": 16},
    "timeout": {"quick": 600, "thorough": 3000},
    "exhaustive": "cut points 0..len for every log of <= 40 entries",
    "rule": "case c = log of 5..40 entries (thorough also 200..2000) of all six change kinds over a small id universe with arbitrary metadata; every cut point x {fresh, used, restore-twice} targets; non-trivial = >=3 change kinds in the log and >=3 cuts checked; distinct = digest of the log",
    "assumptions": ["a replica's outcome is observed through its own notificator under the entry's notification id"],
    "min": {"any": {"earlier_snapshots_restored_late": 1000, "restores_checked": 5000, "cuts_on_empty_index": 20}},
}

CHECKS["C06"] = {
    "pkg": "./c06", "run": "^TestC06$", "level": "exploration",
    "technique": "runtime monitor: differential execution of storage/wal badgerWAL against etcd/raft MemoryStorage after every call, with reopen and several groups in one database",
    "level_text": "Differential monitor: seeded legal call sequences (appends incl. conflicting overwrites, hard states, received snapshots inside and beyond the log with and without trailing entries, local snapshot+compaction, reopen with cold cache or closed database, DeleteGroup + re-create, 1-4 groups interleaved incl. uuid.Nil and adjacent ids) are applied to the Badger store and to MemoryStorage; after every call FirstIndex, LastIndex, Term over [first-2,last+2], Entries under several size limits, Snapshot and InitialState are compared, for the acted-on group and for the others. After every second DeleteGroup the same store object goes on being used; one case in eighty appends batches of more than 8000 entries and compacts nearly all of them at once; every history ends with a reopen of every group and one more comparison. One case in eighty writes entries of more than a megabyte (stored outside the LSM tree by the production options); size limits are probed one below, exactly at and one above every prefix boundary.",
    "level_note": "Only call sequences raft may legally issue; Badger itself is trusted (SyncWrites off in the harness, process-crash durability is C03).",
    "shards": {"quick": 8, "thorough": 16},
    "timeout": {"quick": 600, "thorough": 3000},
    "rule": "case c = 10..40 calls over 1..4 groups in one shared database; non-trivial = >=3 Saves and >=1 reopen; distinct = digest of the call list",
    "assumptions": ["etcd/raft MemoryStorage is the reference semantics of the storage contract", "Save(hs, ents, snap) corresponds to ApplySnapshot; Append; SetHardState"],
    "min": {"any": {"comparisons": 3000, "snapshot_installs": 100, "reopens": 100}},
}

CHECKS["C15"] = {
    "pkg": "./c15", "run": "^TestC15$", "level": "exploration",
    "technique": "runtime monitor / sanitizer: three kernel implementations on identical inputs with a float64-anchored tolerance, inputs mmap'ed against PROT_NONE guard pages at both ends (faults observed via SetPanicOnFault)",
    "level_text": "Differential monitor of the AVX and SSE kernels against the portable kernels on identical inputs placed in guard-paged arenas (vector ending exactly at a PROT_NONE page, starting exactly after one, and start offsets 0..7 floats), over every length 1..4096 (thorough; quick: 1..300 and every residue mod 32 below 512/1024/2048/4096), 10 value classes and 3 metrics, plus symmetry / non-negativity / d(a,a)=0 for all three implementations.",
    "level_note": "Guard pages observe only adjacent out-of-bounds accesses; the deciding tolerance is anchored in float64 arithmetic (4(n+4)2^-24 of the sum of absolute terms, doubled); needs a CPU with AVX and SSE (otherwise inconclusive).",
    "shards": {"quick": 8, "thorough": 16},
    "timeout": {"quick": 900, "thorough": 3000},
    "exhaustive": "thorough: all lengths 1..4096; start-offset pairs 0..7 x 0..7 for lengths <= 64",
    "rule": "case = (length, placement of a, placement of b); each case runs up to 10 value classes (zeros, small ints, uniform, normal*1e3, subnormals, 1e-25..1e-19, 1e10..1e18, 1e19..3e38, one huge among tiny, one-hot on a tail position) x 3 metrics x 3 implementations; every case is non-trivial; distinct = (length, placements)",
    "assumptions": ["Go's SetPanicOnFault turns SIGSEGV/SIGBUS inside the assembly kernels into recoverable panics (confirmed)", "float64 evaluation is the numeric anchor"],
    "min": {"any": {"calls_native": 10000, "calls_avx": 10000, "calls_sse": 10000}},
}

CHECKS["C16"] = {
    "pkg": "./c16", "run": "^TestC16", "level": "exploration",
    "technique": "runtime monitor: structural check of every placement proposed by the real DatasetManager.Create/Allocator over a scripted raft.Group, plus fixed-threshold independence and spread statistics",
    "level_text": "Monitor on the real Create path (allocator + cluster connection) with a scripted raft group that captures the proposal bytes: for every N in 1..16 x R in 1..8 x P in {1,2,3,8,64} (all 640 configurations, 30 creates each quick / 400 thorough) each partition must get exactly min(R,N) distinct member nodes; independence is decided with fixed thresholds (an all-identical placement where its probability is <= 1e-12; pair-coincidence rate and per-node load inside Hoeffding bands with delta = 1e-10). After the static matrix every configuration goes through a membership history (24 quick / 120 thorough steps: removals of nodes that were dialled before and of nodes that never were, joins), with creates for R in {1,3,8} after every step: each placement must use exactly min(R, N) distinct nodes that are members at that moment. A further family commits and applies every create before the next one is placed (200 quick / 1200 thorough creates for 3 shapes per N, over a real log store, local node not a member): pair coincidence, all-identical placements and a create repeating the previous placement are tested with the same fixed thresholds. Real-cluster part (2 quick / 16 thorough): a member is down while one node leaves and another joins, the others compact, the member returns (with -join false in every second case) and is caught up by the leader's snapshot; datasets with R in {1,3,8} created through it must be placed on min(R, N) distinct current members. Creations also arrive concurrently (six at a time on one node, as gRPC serves them), each applied through the scripted group.",
    "level_note": "The configurations are enumerated exhaustively within the stated ranges; random seeds of the shuffle are sampled (global math/rand seeded from VERIF_SEED); statistical tests have a per-run false-alarm probability below 1e-7.",
    "shards": {"quick": 8, "thorough": 16},
    "timeout": {"quick": 300, "thorough": 1800},
    "exhaustive": "N 1..16 x R 1..8 x P in {1,2,3,8,64}",
    "rule": "case = configuration (N,R,P); T creates per configuration, every partition of every create checked structurally; distinct = (N,R,P); all non-trivial",
    "assumptions": ["placement is what the create-dataset proposal carries (bytes captured at raft.Group.Propose)"],
    "min": {"any": {"concurrent_creates_checked": 100, "applied_creates_checked": 1000, "creates_checked": 10000, "independence_tests": 300}},
}

CHECKS["C13"] = {
    "pkg": "./c13", "run": "^TestC13$", "level": "exploration",
    "technique": "Go race detector (deciding) + porcupine per-id linearizability + search-item liveness intervals + quiescent dump invariants + structural deadlock watchdog, over seeded stress runs with scheduling noise at index yield points",
    "level_text": "Stress monitor of one index.Hnsw under -race: single-writer/many-readers and many-writers workloads (4..24 ids, up to 24 goroutines, GOMAXPROCS 2 and 16, seeded Gosched/sleep at the index's yield points). Every run is judged by the race detector, by porcupine on the recorded Insert/Remove/Get history partitioned by id, by liveness intervals of every item each search returned (with bit-exact score), by Len/contents/structural invariants and the C01 search oracle at quiescence, and by a structural deadlock criterion. Every fifth run uses only one or two ids (the index is emptied again and again), and every tenth run is a series of 1500 (quick) / 6000 (thorough) duels: 2-4 goroutines insert and remove the same one or two ids on an empty or one-item index, after which the quiescent invariants (entry point live and stored iff the index is non-empty, Len, contents, C01 search oracle) are checked. One run in forty is a bulk run: 18 000 (quick) / 40 000 (thorough) items are loaded and the index is emptied to an eighth by six removers while six inserters add fresh ids and three readers read; at rest every acknowledged insert must be readable, every acknowledged removal gone, Len their number.",
    "level_note": "Interleavings are whatever the scheduler and the injected noise produced (not replayable); a clean race-detector run means no race was observed in these runs. checkptr is disabled in race builds because the SIMD wrappers pass the length as a fake pointer.",
    "shards": {"quick": 8, "thorough": 16},
    "race": {"quick": True, "thorough": True},
    "race_deciding": True,
    "timeout": {"quick": 900, "thorough": 3400},
    "rule": "run c = generated index config + workload (single writer with 2..11 readers, or 2..15 writers with 0..7 readers) of ~1500 (quick) / 4000 (thorough) write operations on 4..24 ids (c%5==4: 1..2 ids and ~400 operations) plus concurrent Get/Len/Search; c%10==9: 1500/6000 duels on an empty or one-item index; non-trivial = history of more than 100 operations or a completed duel series; distinct = digest of the run description",
    "assumptions": ["timestamps come from one monotonic clock at the caller boundary", "porcupine is trusted as the linearizability checker (60 s timeout => inconclusive)"],
    "min": {"any": {"history_ops": 10000, "search_results_checked": 1000, "linearizable_histories": 4, "duels": 1000}},
}

CHECKS["C17"] = {
    "mem_gb": {"quick": 0, "thorough": 0},
    "pkg": "./c17", "run": "^TestC17$", "level": "exploration",
    "technique": "runtime monitor on an in-process cluster of real servers: Dataset.SizeInfo on every node vs the sum of harness-known partition sizes, with injected PartitionInfo failures and hangs (gRPC interceptors); the Go race detector decides for accesses inside Dataset.SizeInfo / Len / BytesSize (two unsynchronised writers of one sum)",
    "level_text": "Monitor on real anndb.Server clusters in one process (real raft, real gRPC between nodes): seeded topologies of 1..4 nodes, 1..8 partitions with pairwise distinct sizes, replication 1..3; SizeInfo is called repeatedly on every node (all-local, one-remote, several-remote placements) and must equal the sums of the per-partition sizes; then every needed remote lookup is made to fail or hang and the call must fail. Finally a node that holds replicas is removed from the membership after the others have asked it before (their client connections to it are closed): every SizeInfo afterwards fails or reports the full sums. The truth is read from the replicas' indices themselves; every hosting node's answer to a size lookup must equal it, and all checks are repeated after updates that change an item's bytes but not the item count (every node has been asked before).",
    "level_note": "Topologies and completion orders are sampled (goroutine scheduling is not controlled beyond repetition); truth per partition is what a hosting node's PartitionInfo reports while quiescent; nodes that do not hold a partition are asked too and must fail or answer that true size (the serving half of a remote lookup; a caller with a lagging placement view would add the answer to its sum).",
    "race": {"quick": True, "thorough": True},
    "race_deciding_frames": ["storage.(*Dataset).SizeInfo", "storage.(*Dataset).Len", "storage.(*Dataset).BytesSize"],
    "shards": {"quick": 5, "thorough": 12},
    "timeout": {"quick": 900, "thorough": 3400},
    "rule": "case c = topology (nodes, partitions, replication) with distinct partition sizes; 5 SizeInfo calls per node plus 2 fault modes per node with remote partitions; non-trivial = >=2 partitions; distinct = digest of (topology, sizes, placement)",
    "assumptions": ["in-process servers with accelerated raft ticks behave like separate processes for the data plane"],
    "min": {"any": {"size_checks_after_count_preserving_changes": 3, "lookups_served_by_hosting_nodes_checked": 20, "sizeinfo_calls_after_a_node_left": 8, "sizeinfo_calls_checked": 50, "lookups_served_by_non_hosting_nodes_checked": 5}},
}

CHECKS["C09"] = {
    "mem_gb": {"quick": 0, "thorough": 0},
    "pkg": "./c09", "run": "^TestC09$", "level": "exploration",
    "technique": "runtime monitor on an in-process cluster of real servers: Dataset.Search vs exact top-k of the harness copy, intercepted SearchPartitions RPCs attributed by unique query, injected delays / errors / node-down / short deadlines, and concurrent stress",
    "level_text": "Monitor on real anndb.Server clusters in one process: seeded topologies (1..4 nodes, 1..8 partitions of <=20 insert-only items so that each partition's own answer is exact, replication 1..3); every Search must return exactly the top-k of all items (bitwise score sequence) or an error, the SearchPartitions RPCs seen by the interceptors must cover every partition exactly once, a consulted node that fails / is down / answers after the deadline must make the call fail, and 2 x 720 concurrent searches (GOMAXPROCS 2 and 16) exercise the collector/closer interleaving. Phase 2b (240 quick / 1200 thorough searches per multi-node cluster): the victim's failure is gated on the completion of another node's handler for the same query, so that it lands while the collector is busy. Phase 4: a node that holds replicas is removed from the membership; every search through the remaining nodes fails or is exact.",
    "level_note": "Completion orders are produced by injected delays and concurrency, not enumerated; exactness of a partition's own answer relies on the small-collection bound checked by C07.",
    "shards": {"quick": 5, "thorough": 12},
    "timeout": {"quick": 900, "thorough": 3400},
    "rule": "case c = topology + seeded items; 40 sequential searches with per-node delays, 12 fault searches, 1440 stress searches, k in {1,5,n,n+3}; non-trivial = >=50 searches checked against the exact top-k; distinct = digest of (topology, items per partition)",
    "assumptions": ["queries are unique in their first coordinate, which attributes intercepted RPCs to a search"],
    "min": {"any": {"late_failure_searches_hitting_victim": 100, "searches_after_a_node_left": 10, "searches_checked": 2000}},
}

CHECKS["C10"] = {
    "mem_gb": {"quick": 0, "thorough": 0},
    "pkg": "./c10", "run": "^TestC10$", "level": "exploration",
    "technique": "runtime monitor: routing function evaluated over ids x every modulus 1..1024 (range, repeatability, equality across fresh processes) + placement observed on an in-process cluster after writes through every entry node and API path",
    "level_text": "Pure part: 20k (quick) / 200k (thorough) ids (random, all-zero, all-ones, every single bit, halves swapped) x every n in 1..1024: result in range, identical on repeated and concurrent evaluation, identical table digest in two fresh processes. System part: real 3-node clusters with 1/2/5/8 partitions and replication 1-2; each id is written through every entry node and insert path, updated from a second node and removed from a third through single and batch paths, and after each step exactly the replicas of partition route(id, n) hold it and no other partition does. Batches of 8-24 full-entropy ids spanning partitions are inserted, updated and removed, each step through a different node, and every id must be held by its owner only. Size queries and searches are issued on every node between the write phases (and before the first write in every second case). In every second round a multi-partition batch also carries refused items (wrong dimension), first and in the middle. The ids written through every entry node and path include the all-zero and the all-ones id.",
    "level_note": "Ids are sampled; the moduli 1..1024 are enumerated completely; the system part samples topologies (replica choice for proxied writes is random inside the code under test).",
    "shards": {"quick": 5, "thorough": 12},
    "timeout": {"quick": 900, "thorough": 3400},
    "exhaustive": "partition counts 1..1024 for every sampled id (pure part)",
    "rule": "pure: one case = the whole table; system: case c = topology, 24 (entry node x insert path x update path x remove path) sequences, placement checked after each of the 3 steps; all non-trivial; distinct = digest of the topology description",
    "assumptions": ["placement is read from each node's partition index through the verif accessor"],
    "min": {"any": {"corner_ids_written_through_the_cluster": 4, "pure_evaluations": 1000000, "placements_checked": 100, "fresh_process_tables": 2}},
}

CHECKS["C11"] = {
    "mem_gb": {"quick": 0, "thorough": 0},
    "pkg": "./c11", "run": "^TestC11$", "level": "exploration",
    "technique": "runtime monitor on an in-process cluster: acknowledged writes vs owner-partition contents, raft-log growth on rejected writes (RecWAL), batch error maps vs a model, and caller outcomes under a forced apply-before-wait schedule (pause point) and concurrent callers",
    "level_text": "Monitor on real clusters of 1..3 nodes: (a) every acknowledged insert is on a replica of the owner immediately and on all at quiescence; (c) dimension mismatches are rejected and no partition raft log grows (durable view of the WAL wrapper); (d) batches mixing present, absent and wrong-dimension items return exactly the model's error map and apply the rest; (e) callers are held at the pause point between Propose and the wait until their own entry has been applied and must still get their own outcome, then 24 concurrent callers run insert/duplicate/update/remove/absent sequences whose outcomes are all distinguishable. Every caller also runs five batch steps on ids of its own whose error maps are pairwise distinguishable; and 24 callers per single-replica cluster leave on their own deadline at the pause point while their outcome is already buffered, after which the next write on the partition must get its own outcome. Unloaded-while-pending family: three nodes, a two-replica partition whose other replica is down, three writes accepted by raft that cannot commit, then the dataset is deleted through the third node - each write must return an error. The unreachable-owner writes are also issued through the gRPC services (the status the client receives is what is judged).",
    "level_note": "(b) unreachable owner is produced through the public API (the only hosting node is removed from the cluster, so the entry node forgets its address while the partition still lists it); interleavings beyond the forced one are whatever concurrency produced.",
    "shards": {"quick": 5, "thorough": 12},
    "timeout": {"quick": 900, "thorough": 3400},
    "rule": "case c = topology (1..3 nodes, 1..4 partitions, replication 1..2); 12 acks, 6 dimension cases, 6 batch maps, forced and concurrent caller sequences; all non-trivial; distinct = digest of the topology",
    "assumptions": ["error identity across the gRPC proxy is compared on the message text"],
    "min": {"any": {"unreachable_owner_writes_over_grpc": 1, "caller_batch_outcomes_checked": 100, "acks_checked": 30, "caller_outcomes_checked": 500, "batch_maps_checked": 10, "unreachable_owner_writes": 3, "no_quorum_writes": 4}},
}

CHECKS["C03"] = {
    "mem_gb": {"quick": 0, "thorough": 0},
    "pkg": "./c03", "run": "^TestC03", "level": "fault_enumeration",
    "aux": [{"pkg": "github.com/marekgalovic/anndb/cmd/anndb", "name": "anndb", "env": "VERIF_ANNDB_BIN", "tags": "verif"}],
    "technique": "runtime monitor with fault enumeration: crash armed at every durable-write boundary (before/after each Save / snapshot install / CreateSnapshot of the raft log stores) of a seeded workload on in-process real servers, restart on the same data directory, recovered partition contents vs acknowledged-history oracle Also on real cmd/anndb processes killed with SIGKILL (from outside at a seeded moment of the write storm, or by themselves at the k-th hit of a ready-loop point) and restarted, contents read through a state dump; and a two-fault family (third replica lags, second replica crashes at the write that stores the entry, then the leader crashes).",
    "level_text": "A pilot run of the seeded workload (4 sequential per-id clients, single and batch insert/update/remove with unique version tags, forced snapshot+compaction of the partition and zero groups) counts the durable writes K of the victim node; the workload is then re-run once for every k in 1..K and both sides with a crash armed there (1 node / 1 replica: all boundaries; 3 nodes / 3 replicas with a minority crash while clients continue: 20 sampled boundaries quick, all thorough). After restart the recovered contents of every replica must be the acknowledged state of every id or that plus the one open operation, with nothing never submitted; the workload then continues and is compared again. Real-process part: 24 quick / 400 thorough cases of 1 node / 1 replica and 3 nodes / 3 replicas built from the working tree with the verif tag, killed with SIGKILL (nothing is flushed or closed on the way down, unlike the in-process teardown) at ready-loop points of the partition or membership group (weighted towards the log write, with snapshot+compaction forced every 2-7 applied entries in two thirds of the cases) or after a seeded number of acknowledged writes, restarted with the same command line or with -join false; the replicas must become level and every replica's contents must be the acknowledged state of every id or that plus its one open operation, then the workload continues and is compared again. Quorum-of-two family (6 quick / 60 thorough): appends do not reach the third replica, the second crashes before/after the durable write that stores the entry and restarts, then the leader crashes; the leader the two remaining replicas elect must hold every acknowledged write. A further family takes a minority replica away while every item of the partition is removed (acknowledged) and the remaining replicas compact their logs at that moment - the snapshot of a partition that holds nothing - then writes on; the replica returns holding what its own log gives it and is caught up by that snapshot: all three replicas must hold exactly the acknowledged history (a control third leaves one item in place).",
    "level_note": "Process-crash model: the crashing node's ready-loops end at the armed boundary (other groups of the node at their next event), nothing is written afterwards, Badger is then closed and reopened; power loss / torn writes inside Badger are not modelled. Goroutine interleaving varies between the pilot and the armed runs, so a boundary index may denote a different write; the evidence lists the distinct boundary kinds actually hit.",
    "shards": {"quick": 8, "thorough": 16},
    "timeout": {"quick": 900, "thorough": 3400},
    "exhaustive": "durable-write boundaries 1..K x {before, after} of the pilot workload on the 1-node topology",
    "rule": "case = (seed, topology, boundary k, side); non-trivial = the armed crash point was reached and fired; distinct = digest of the case description",
    "assumptions": ["an in-process crash (ready-loops ended, no further writes, Badger closed and reopened) is a legal process-crash schedule", "acknowledged = call returned success before the crash flag was set, decided under one mutex"],
    "min": {"any": {"emptied_histories": 3, "emptied_replicas_caught_up_by_the_snapshot_of_an_empty_partition": 1, "proc_crashes": 8, "proc_recovered_states_checked": 16, "quorum_of_two_histories": 2, "crashes": 20, "recovered_states_checked": 20}},
}

CHECKS["C20"] = {
    "pkg": "./c20", "run": "^TestC20", "level": "fault_enumeration",
    "aux": [{"pkg": "github.com/marekgalovic/anndb/cmd/anndb", "name": "anndb", "env": "VERIF_ANNDB_BIN", "tags": "verif"}],
    "mem_gb": {"quick": 0, "thorough": 0},
    "technique": "runtime monitor on an in-process cluster of real servers (real gRPC raft transport): address-book equality on every live member after a logical marker, after joins (sequential and concurrent), removals, forced compaction of the membership log and restart of any member; a removed node re-joining (through a lagging member; under its old id followed by a later join and a member's restart); a removal while another member is down, with and without compaction",
    "level_text": "Monitor on real clusters of 2..5 nodes: after every acknowledged join / removal a marker catalogue entry is proposed and, once every live member has applied it, each member's Conn.Nodes() must equal the acknowledged membership with the announced addresses; the same after restarting a member (bootstrap node or joiner), with and without the zero group's log having been compacted into a snapshot first. A fourth extra family (3 quick / 24 thorough): node 2 holds node 4's committed join unapplied while node 3, which has applied it, restarts or repeats its join handshake through node 2. A member that has applied the membership log up to the commit index at which every change had been acknowledged and still lists something else is a violation whether or not its log still moves. Real-process part (16 quick / 200 thorough cases): four real cmd/anndb servers; while node 4 is removed (even cases) or joins (odd cases) a founding member is killed with SIGKILL at the k-th hit of a ready-loop point of the membership group and restarted (same command line or -join false); once a catalogue marker created afterwards is listed by every member, every member's address book (read through the state dump) must be the acknowledged membership with the announced addresses, or - when the change's outcome is unknown - the same on every member. TestC20JoinAnswerCutShort loses the connection in the middle of the join handshake's answer (after one or two entries of the member list): whether the joining node takes that as a failure and asks again, or as an acknowledgement, every member including the new one must list everybody afterwards.",
    "level_note": "Fault sequences are a fixed seeded family (sequential vs concurrent joins x removal x compaction x which member restarts), not message-level faults; quiescence is logical (marker applied), the wall-clock watchdog only yields inconclusive.",
    "shards": {"quick": 8, "thorough": 16},
    "timeout": {"quick": 900, "thorough": 3400},
    "rule": "case c = (nodes 2..5, concurrent joins?, removal?, compaction before restart?, restarted member); non-trivial = all phases ran to the final comparison; distinct = digest of the case description. Three more families of 3 (quick) / 24 (thorough) cases each: re-join through a member that holds the removal unapplied; removal + shutdown + re-join under the old id, then node 4 joins and a member that stayed restarts (datasets with 3 replicas exist, so partition groups log the removal too); removal of a node while another member is down, [compaction], the member returns. In the last two a view that does not converge is a violation only if the lagging member's membership log has not moved during a second 20 s window",
    "assumptions": ["a marker entry applied on a member implies every earlier membership entry was applied there (single log order)"],
    "min": {"any": {"join_answers_cut_short": 3, "proc_crashes": 4, "rejoin_through_member_behind_on_a_join_histories": 1, "books_checked": 20, "rejoin_then_later_join_histories": 1, "removal_while_member_down_histories": 1}},
}

CHECKS["C14"] = {
    "pkg": "./c14", "run": "^TestC14", "level": "fault_enumeration",
    "aux": [{"pkg": "github.com/marekgalovic/anndb/cmd/anndb", "name": "anndb", "env": "VERIF_ANNDB_BIN", "tags": "verif"}],
    "mem_gb": {"quick": 0, "thorough": 0},
    "technique": "runtime monitor on an in-process cluster of real servers: catalogue equality (id, dimension, metric, partition ids in order, replica assignment) of every live node vs the acknowledged model after a logical marker, across create/delete sequences, forced catalogue-log compaction, restarts, and a node catching up by snapshot; plus a replica-set family: agreement of the replica assignment across members, and of what each member lists with what it routes by, after node 3 is added to under-replicated partitions and removed again, across compaction, restart and catch-up by snapshot Also on real cmd/anndb processes killed with SIGKILL in the middle of catalogue writes at ready-loop points of the membership-and-catalogue group; and a family in which a member falls behind without going down, is caught up by snapshot, snapshots again and restarts.",
    "level_text": "Monitor on real clusters of 1..3 nodes with real start-up wiring: seeded sequences of create / delete / compaction / restart / node-down-while-the-catalogue-changes-and-the-others-compact; after each restart or catch-up and at the end (and again after restarting every node) each live node's List must equal the acknowledged catalogue exactly, deleted datasets must not be listed and no raft group of their partitions may still run on any node. Real-process part (48 quick / 600 thorough cases): 12 create/delete operations through a surviving node while the victim is killed with SIGKILL at the k-th hit of a zero-group ready-loop point (weighted towards the log write; the loop that reached the point may be held 10 ms so that replies on their way out leave) or between two operations; after the restart and a marker every node's List must contain every acknowledged creation unchanged, no acknowledged deletion, nothing unknown, and all nodes must agree. Cut-off member family (4 quick / 40 thorough): a member takes a snapshot, is cut off while the catalogue changes and the others compact, is caught up by the leader's snapshot, applies a leader change's empty entry, snapshots again and restarts; its List is compared before any marker. Every second scenario has a burst of six concurrent creations and their concurrent deletions through one node. TestC14Periodic runs real servers with no harness-triggered compaction: the catalogue log is filled past the 5000-entry threshold, a second node joins and is given the missing replicas of under-replicated datasets, creations and deletions follow, and once a server's own ten-second ticker has taken a snapshot (seen in its log; no snapshot within the watchdog is inconclusive) the server is killed and restarted from it; all nodes must list the same catalogue.",
    "level_note": "Sequences are sampled from a fixed seeded family; crash = in-process teardown at step boundaries (mid-write crash points are C03's); replica-set changes are the allocator's own (node 3 joins while datasets want 3 replicas on 2 members, node 3 is removed); which partitions change depends on the allocator (only a partition's first replica may change it), so where a particular outcome cannot be expected the verdict is agreement (across members at rest; listed vs in effect on one member), and an allocator change that never arrives is inconclusive.",
    "shards": {"quick": 8, "thorough": 16},
    "timeout": {"quick": 900, "thorough": 3400},
    "rule": "case c = 1..3 nodes + 6..11 steps of create/delete/compaction/restart/lagging-node; non-trivial = at least one deletion acknowledged; distinct = digest of the step list. Replica-set family (4 quick / 40 thorough cases): 2..4 datasets (replication 3 or 1..2) on 2 members, node 3 joins, [compaction] restart of a member, [node 2 down] node 3 removed, [compaction, node 2 back], restart of every member",
    "assumptions": ["a marker dataset visible on a node implies every earlier catalogue entry was applied there"],
    "min": {"any": {"periodic_restarts_from_a_ticker_snapshot": 1, "proc_catalogues_compared": 16, "cut_off_member_histories": 1, "catalogues_compared": 20, "replica_assignments_compared": 6, "replica_set_changes_observed": 2}},
}

CHECKS["C05"] = {
    "pkg": "./c05", "run": "^TestC05", "level": "fault_enumeration",
    "mem_gb": {"quick": 0, "thorough": 0},
    "technique": "online trace monitors (apply agreement, in-order apply, durable-before-send, restart monotonicity and exact equality of the log a replica resumes from with the log its previous incarnation made durable, one leader per term, no fatal, bounded convergence) over every raft message (SimNet shim), every durable write (WAL wrapper) and every applied entry of in-process real servers under seeded loss/delay/duplication/partition/crash-restart schedules; M8: every snapshot message of a Ready is followed, before the loop's next Ready, by a report of its outcome to raft",
    "level_text": "Real servers in one process with all raft traffic routed through a recording network shim and all log stores wrapped: seeded schedules of 6-10 phases (drop 0-30%, duplication, delays up to 80 ms against 50-100 ms election timeouts, minority and one-way partitions, immediate crashes and crashes armed at the k-th durable write, restarts) run against groups of 1, 3 and 5 replicas plus the zero group while 5 sequential clients write. Seven monitors judge every message against the sender's durable view at the instant it leaves, every applied entry, every Save and every restart; after faults stop all replicas must converge within 600 election timeouts of virtual ticks and hold exactly the acknowledged history. Every second scenario has a slow disk (one durable write in eight takes 1-15 ms), every third phase has sends that fail loudly, and every scenario with three or more replicas ends its fault phases with a forced history: one replica is cut off, the others compact, it returns with its ready-loop held up 40 ms per Ready over a link that fails half of the sends while the leader's loop is slow too. Every eighth scenario is a late-joiner history: the third replica joins an under-replicated partition after writes have happened and crashes before/after one of its partition group's first four durable writes (its catalogue snapshotted in between in half of them, so that the restart passes the member list), then restarts. A separate family (TestC05FatLog) restarts a replica of a 1- or 3-replica group on a log of ten megabytes and more of committed batch entries (64 KiB each) behind its last snapshot: every position from the snapshot to the commit index must be handed to the state machine, in order and none skipped, with the same entry as on every other replica, and the replica must hold every acknowledged item afterwards.",
    "level_note": "etcd/raft itself is trusted; schedules are sampled (only the crash boundary index is a systematic dimension); goroutine scheduling is not replayable, the witness is the recorded event tail.",
    "shards": {"quick": 8, "thorough": 16},
    "timeout": {"quick": 900, "thorough": 3400},
    "rule": "case c = group size (1,3,5) + seeded fault script; non-trivial = more than 200 raft messages checked; distinct = digest of (topology, script)",
    "assumptions": ["the sender's durable view is read on the sender's goroutine when the message leaves", "a crash ends the node's ready-loops at an event boundary; nothing is persisted afterwards"],
    "min": {"any": {"fat_log_restarts_replaying_over_8_MiB": 1, "forced_catch_up_by_snapshot_phases": 4, "raft_messages_checked": 5000, "restarts": 3, "replica_contents_checked": 10}},
}

CHECKS["C18"] = {
    "pkg": "./c18", "run": "^TestC18$", "level": "exploration",
    "mem_gb": {"quick": 0, "thorough": 0},
    "technique": "runtime monitor: bounded progress of catalogue/membership calls on in-process real servers under join/remove/re-join bursts interleaved with create/delete, a restart replay, and membership churn behind a node-change handler that can never finish; a structural wait-for-cycle detector over goroutine dumps (same goroutines parked in the cycle for more than a minute) is the deciding criterion on a stall",
    "level_text": "Real 3- and 4-node clusters in one process. Family A: under-replicated datasets are created (so the allocator itself proposes catalogue changes), then node 3 joins, is removed and re-joins 2-4 times while datasets are created and deleted concurrently from both other nodes, with scheduling noise at the allocator's lock/hand-over points; then a node with existing datasets is restarted (replay burst) and must answer List and apply a marker. Family B (one case in twelve): a replica that leads a two-replica partition group dies and is removed from the cluster, so the surviving replica's node-change handler waits for a leader that cannot be elected; node 4 then joins and leaves 6-8 times (12-16 notifications, more than the notification channel held) and a catalogue entry created afterwards must be applied on both live members. Family C (one case in twelve): the address book's notification contract on its own - 400 (quick) / 3000 (thorough) seeded scripts of change bursts and single subscriber steps around the channel's capacity; a membership call parked in a channel send below the notification code while the subscriber is stalled is a violation, and every change must be delivered exactly once, in order. A stall in A/B is a violation only if the goroutine dumps show one of the control plane's lock-and-channel wait-for cycles with every goroutine of the cycle parked in one uninterrupted wait for more than a minute (longer than every bounded wait of the control plane), or a ready-loop goroutine parked that long inside an apply callback; any other stall is inconclusive. In family A a dial that has taken the connection lock is held (yield points in cluster.Conn) until a membership change has taken the address lock, up to 40 ms; family B also deletes the dataset whose partition group has no leader. Besides the named cycles, a control-plane goroutine (innermost repository frame in cluster, storage or storage/raft) that has waited for a mutex for more than a minute is a wedge. In the joins-only cases the restarted node stays down while the others create datasets and compact, so that it replays its own log and is then sent the leader's catalogue snapshot on top of the datasets it knows. In every second case of family A the partitions the restarted node hosts hold items and have compacted their logs, so that the restart loads each partition's raft group from a stored snapshot while the catalogue entry is being applied.",
    "level_note": "Interleavings are sampled, not enumerated; wall clock only triggers the dump analysis, the verdict is structural. Cycles are recognised by frame names of the allocator, catalogue and address-book code; a wedge of a different shape is reported as inconclusive, not as a violation.",
    "shards": {"quick": 6, "thorough": 16},
    "timeout": {"quick": 1200, "thorough": 3400},
    "rule": "case c: c%12==5 -> family B (churn behind a leaderless partition group: 6..8 join/leave cycles of node 4); c%12==11 -> family C (notification contract scripts); otherwise family A = seeded burst (2..4 join/remove cycles of node 3, 10 catalogue operations, 2..4 under-replicated datasets) + restart of node 1 or 2; non-trivial = the scenario ran to the final marker; distinct = digest of the step list",
    "assumptions": ["a goroutine dump taken in-process shows every server's goroutines; cycles are recognised by frame names", "every bounded wait in the control plane is shorter than a minute (proposal timeout 5 s, membership change 10 s)"],
    "min": {"any": {"restarts_with_stored_partition_snapshots": 2, "progress_checks": 10, "restarts_completed": 2, "leaderless_group_histories": 1}},
}

CHECKS["C12"] = {
    "pkg": "./c12", "run": "^TestC12$", "level": "exploration",
    "mem_gb": {"quick": 0, "thorough": 0},
    "aux": [{"pkg": "github.com/marekgalovic/anndb/cmd/anndb", "name": "anndb", "env": "VERIF_ANNDB_BIN", "tags": "verif"}],
    "technique": "runtime monitor on real cmd/anndb processes: liveness (process alive, List answers, valid requests served) after every hostile request class, and again after kill -9 + restart on the same data directory (log replay)",
    "level_text": "Every request class (malformed ids of length 0/15/17/1000 on every RPC that takes one, unknown datasets and partitions, degenerate create parameters, empty and wrong-dimension vectors incl. the unvalidated PartitionBatch* path, NaN/Inf/subnormal/huge/zero coordinates under each metric, k = 0 / 2^20 / 2^32-1, over-long metadata, batches of 0/100/101/10000 items, duplicate and mixed batches) gets a freshly started real server with valid data; after the request the process must be alive, answer List and serve a valid insert+search, and after SIGKILL + restart it must replay its log, answer and serve again. Also: seven values of the batch item's level field through every batch RPC, and ordinary numbers at the edge of each metric (parallel, nearly parallel, opposite and coincident vectors). One class consists of valid requests only, overlapping: three clients churn a few hundred items of one partition with batch inserts and removals while twelve clients search it.",
    "level_note": "Well-typed protobuf requests only; single-node servers (a poisoned entry kills every replica the same way); both tiers run every class; server address space is capped at 25 GB so a runaway allocation ends the server.",
    "shards": {"quick": 8, "thorough": 16},
    "timeout": {"quick": 900, "thorough": 3400},
    "rule": "case = request class (RPC x input class); non-trivial = the class ran to a verdict; distinct = class name",
    "assumptions": ["the server binary is built from /repo's working tree by the driver (go build ./cmd/anndb)"],
    "min": {"any": {"classes_run": 100}},
}
