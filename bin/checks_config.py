# Per-property configuration of bin/vcheck. One entry per claimed property.
CHECKS = {}
NOT_APPLICABLE = {}   # property id -> reason (only for properties that are not claimed)
HOOK_COMMITS = []     # /repo commits that add build-tag-guarded hooks
MANIFEST_NOTES = ("Every check is `bin/vcheck <id> quick|thorough`; VERIF_SEED selects the seeded case lists. "
                  "Verdicts are three-valued (VIOLATION / held / INCONCLUSIVE); known findings are in known_findings.json.")

CHECKS["C19"] = {
    "pkg": "./c19", "run": "^TestC19$", "level": "exploration",
    "technique": "runtime monitor: sorted-multiset reference model checked after every queue operation over seeded operation sequences",
    "level_text": "Differential monitor of the real utils.PriorityQueue against a sorted-multiset model over tens of thousands (quick) to millions (thorough) of seeded operation sequences in which source and reversed queues are both kept in use; held means no divergence on any observed sequence.",
    "level_note": "Sampled sequences only (sizes up to ~400 items); container/heap trusted; single goroutine (the queue is not meant to be shared).",
    "shards": {"quick": 4, "thorough": 16},
    "timeout": {"quick": 300, "thorough": 1800},
    "rule": "seeded sequences (case c of VERIF_SEED) of push/pop/peek/ToSlice/Values/Reverse over a pool of up to 4 live min/max queues "
            "(tie-rich integer priorities or floats, 5..400 steps, then every queue drained); oracle = sorted-multiset model per queue; "
            "non-trivial = at least 3 pops checked; distinct = digest of the operation list",
    "assumptions": ["container/heap is trusted", "priorities are non-negative finite floats (Push panics on negatives by design)"],
    "min": {"any": {"pops_checked": 1000, "cases_with_reverse": 100}},
}
